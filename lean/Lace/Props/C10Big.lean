/-
  C10 (continued) — the big-step statements, by induction from the one-iteration lemmas along the
  plain machine's trajectory: `stepInto_exact` (`step into N` executes exactly N instructions),
  `run_exact` and its corollaries `continue_exact`, `stepOver_exact` (`step` on a call executes the
  whole subroutine and pauses at the following address), `stepOut_exact` (`step out` executes up to
  and including the first RET/RETS).
-/
import Lace.Props.C10
namespace Lace.C10
open Lace Lace.Dbg Lace.Cmd Lace.DbgProofs

theorem clear_of_nobp (d : Dbg) (m : Machine) (hb : d.bps = []) (hbounds : Run.checkPcBounds m = .eq)
    (hh : sigOf (m.read m.pc) ≠ some .halt) : Clear d m :=
  ⟨hbounds, hh, fun ha => by simp [C11.Armed, bpGet, hb] at ha⟩

/-- state of the plain machine after exactly `i` instructions, if it is still running -/
def After (env : Env) (m : Machine) (w : World) (i : Nat) (mi : Machine) (wi : World) : Prop :=
  C09.plain env i m w = .fuel mi wi

theorem after_succ (env : Env) (m : Machine) (w : World) (i : Nat) (mj : Machine) (wj : World)
    (h : After env m w (i + 1) mj wj) :
    Run.checkPcBounds m = .eq ∧
    ∃ m1 w1, VM.execute env.stackOn env.minimal (m.read m.pc) (m.setPC (m.pc + 1)) w = .ok m1 w1 ∧
      After env m1 w1 i mj wj := by
  unfold After at h
  by_cases hpc : (m.pc == 0xFFFF#16) = true
  · simp [C09.plain, Run.loop, hpc] at h
  · cases hb : Run.checkPcBounds m with
    | lt => simp [C09.plain, Run.loop, hpc, hb] at h
    | gt => simp [C09.plain, Run.loop, hpc, hb] at h
    | eq =>
      rw [C09.plain_step env i m w hb] at h
      cases hx : VM.execute env.stackOn env.minimal (m.read m.pc) (m.setPC (m.pc + 1)) w with
      | ok m1 w1 => rw [hx] at h; exact ⟨rfl, m1, w1, rfl, h⟩
      | exit c w' => rw [hx] at h; simp at h
      | panic s => rw [hx] at h; simp at h

/-- **C10 (`step into N` executes exactly N).** From status `StepInto{c}` (what `step into c+1`
sets up) with no breakpoints, as long as the program keeps running and does not arrive at a HALT,
the first `j ≤ c + 1` iterations execute exactly `j` instructions — the plain machine's next `j`
— without reading any command; after `c + 1` of them the debugger is waiting for a command. -/
theorem stepInto_exact (env : Env) : ∀ (j : Nat) (c : Word) (d : Dbg) (m : Machine) (w : World) (ex : List Word)
    (mj : Machine) (wj : World),
    d.status = .stepInto c → d.bps = [] → j ≤ c.toNat + 1 →
    After env m w j mj wj →
    (∀ i mi wi, i < j → After env m w i mi wi → sigOf (mi.read mi.pc) ≠ some .halt) →
    ∃ d' ex', runLoop env j true d m w ex = .fuel true d' mj wj ex' ∧ ex'.length = ex.length + j ∧
      d'.ncmds = d.ncmds ∧ d'.bps = [] ∧
      d'.status = (if j = c.toNat + 1 then .wait else .stepInto (c - BitVec.ofNat 16 j))
  | 0, c, d, m, w, ex, mj, wj, hs, hb, hj, ha, hh => by
    simp [After, C09.plain, Run.loop] at ha
    obtain ⟨h1, h2⟩ := ha; subst h1 h2
    refine ⟨d, ex, rfl, rfl, rfl, hb, ?_⟩
    have : ¬ (0 = c.toNat + 1) := by omega
    simp [this, hs]
  | j + 1, c, d, m, w, ex, mj, wj, hs, hb, hj, ha, hh => by
    obtain ⟨hbounds, m1, w1, hx, ha1⟩ := after_succ env m w j mj wj ha
    have hh0 := hh 0 m w (by omega) (by simp [After, C09.plain, Run.loop])
    have hclear := clear_of_nobp d m hb hbounds hh0
    have hit := stepInto_iter env d m w c hs hclear
    unfold runLoop
    rw [hit]
    simp only [execOne, hx]
    -- the record after this iteration
    let d1 := ran { d with curBp := none, status := if c.toNat > 0 then Status.stepInto (c - 1) else Status.wait }
    by_cases hc : c.toNat > 0
    · have hs1 : d1.status = .stepInto (c - 1) := by simp [d1, ran, hc]
      have hc1 : (c - 1).toNat = c.toNat - 1 := by
        have := c.isLt
        simp [BitVec.toNat_sub]; omega
      have hh1 : ∀ i mi wi, i < j → After env m1 w1 i mi wi → sigOf (mi.read mi.pc) ≠ some .halt := by
        intro i mi wi hi hai
        apply hh (i + 1) mi wi (by omega)
        unfold After; rw [C09.plain_step env i m w hbounds, hx]; exact hai
      obtain ⟨d', ex', hr, hl, hn, hb', hst⟩ :=
        stepInto_exact env j (c - 1) d1 m1 w1 (pushExec (some m.pc) ex) mj wj hs1 (by simp [d1, ran, hb])
          (by omega) ha1 hh1
      refine ⟨d', ex', hr, by simp [pushExec] at hl; omega, by rw [hn]; simp [d1, ran], hb', ?_⟩
      rw [hst, hc1]
      have e1 : (j = c.toNat - 1 + 1) ↔ (j + 1 = c.toNat + 1) := by omega
      by_cases hje : j + 1 = c.toNat + 1
      · have hje' := e1.2 hje
        rw [if_pos hje', if_pos hje]
      · have : ¬ (j = c.toNat - 1 + 1) := fun h => hje (e1.1 h)
        simp only [this, hje, if_false]
        congr 1
        apply BitVec.eq_of_toNat_eq
        have hjlt : j < 65536 := by have := c.isLt; omega
        simp [BitVec.toNat_sub, BitVec.toNat_ofNat]
        have := c.isLt
        omega
    · -- c = 0: this was the last instruction; j must be 0
      have hc0 : c.toNat = 0 := by omega
      have hj0 : j = 0 := by omega
      subst hj0
      simp [After, C09.plain, Run.loop] at ha1
      obtain ⟨h1, h2⟩ := ha1; subst h1 h2
      refine ⟨d1, pushExec (some m.pc) ex, by simp [runLoop, d1], by simp [pushExec], by simp [d1, ran], by simp [d1, ran, hb], ?_⟩
      simp [d1, ran, hc, hc0]


/-! ### `continue`, `step` over a call, `step out`: big-step statements -/

/-- statuses in which the loop keeps executing without reading commands -/
def Running (env : Env) (m : Machine) (w : World) (j : Nat) (s : Status) : Prop :=
  s = .cont ∨
  (∃ ret, s = .stepOver ret ∧ ∀ i mi wi, i < j → After env m w i mi wi → mi.pc ≠ ret) ∨
  (s = .finish ∧ ∀ i mi wi, i < j → After env m w i mi wi → sigOf (mi.read mi.pc) ≠ some .ret)

theorem clear_of_nobp_at (d : Dbg) (m : Machine) (hb : bpGet d.bps m.pc = none)
    (hbounds : Run.checkPcBounds m = .eq) (hh : sigOf (m.read m.pc) ≠ some .halt) : Clear d m :=
  ⟨hbounds, hh, fun ha => by simp [C11.Armed, hb] at ha⟩

theorem after_zero (env : Env) (m : Machine) (w : World) : After env m w 0 m w := by
  simp [After, C09.plain, Run.loop]

theorem after_shift (env : Env) (m m1 : Machine) (w w1 : World) (hb : Run.checkPcBounds m = .eq)
    (hx : VM.execute env.stackOn env.minimal (m.read m.pc) (m.setPC (m.pc + 1)) w = .ok m1 w1)
    (i : Nat) (mi : Machine) (wi : World) (h : After env m1 w1 i mi wi) : After env m w (i + 1) mi wi := by
  unfold After; rw [C09.plain_step env i m w hb, hx]; exact h

/-- **C10, big step for `continue`, `step` (over a call) and `step out`.**  While the plain machine
keeps running, meets no breakpoint and no HALT, and the stop condition of the status is not met
(`step`: PC = return address; `step out`: the instruction is RET/RETS), `j` iterations execute
exactly the plain machine's next `j` instructions without reading a command, and the status
stays what it was. -/
theorem run_exact (env : Env) : ∀ (j : Nat) (d : Dbg) (m : Machine) (w : World) (ex : List Word)
    (mj : Machine) (wj : World),
    Running env m w j d.status →
    (∀ i mi wi, i < j → After env m w i mi wi →
      bpGet d.bps mi.pc = none ∧ sigOf (mi.read mi.pc) ≠ some .halt) →
    After env m w j mj wj →
    ∃ d' ex', runLoop env j true d m w ex = .fuel true d' mj wj ex' ∧ ex'.length = ex.length + j ∧
      d'.ncmds = d.ncmds ∧ d'.bps = d.bps ∧ d'.status = d.status
  | 0, d, m, w, ex, mj, wj, _, _, ha => by
    simp [After, C09.plain, Run.loop] at ha
    obtain ⟨h1, h2⟩ := ha; subst h1 h2
    exact ⟨d, ex, rfl, rfl, rfl, rfl, rfl⟩
  | j + 1, d, m, w, ex, mj, wj, hrun, hfree, ha => by
    obtain ⟨hbounds, m1, w1, hx, ha1⟩ := after_succ env m w j mj wj ha
    obtain ⟨hb0, hh0⟩ := hfree 0 m w (by omega) (after_zero env m w)
    have hclear := clear_of_nobp_at d m hb0 hbounds hh0
    let d1 := ran { d with curBp := none }
    have hit : iter env true d m w = execOne env true d1 m w := by
      rcases hrun with hs | ⟨ret, hs, hne⟩ | ⟨hs, hne⟩
      · exact continue_iter env d m w hs hclear
      · exact stepOver_iter env d m w ret hs hclear (hne 0 m w (by omega) (after_zero env m w))
      · have := stepOut_iter env d m w hs hclear
        rw [if_neg (hne 0 m w (by omega) (after_zero env m w))] at this
        exact this
    have hrun1 : Running env m1 w1 j d1.status := by
      rcases hrun with hs | ⟨ret, hs, hne⟩ | ⟨hs, hne⟩
      · exact Or.inl hs
      · exact Or.inr (Or.inl ⟨ret, hs, fun i mi wi hi hai =>
          hne (i + 1) mi wi (by omega) (after_shift env m m1 w w1 hbounds hx i mi wi hai)⟩)
      · exact Or.inr (Or.inr ⟨hs, fun i mi wi hi hai =>
          hne (i + 1) mi wi (by omega) (after_shift env m m1 w w1 hbounds hx i mi wi hai)⟩)
    have hfree1 : ∀ i mi wi, i < j → After env m1 w1 i mi wi →
        bpGet d1.bps mi.pc = none ∧ sigOf (mi.read mi.pc) ≠ some .halt := fun i mi wi hi hai =>
      hfree (i + 1) mi wi (by omega) (after_shift env m m1 w w1 hbounds hx i mi wi hai)
    obtain ⟨d', ex', hr, hl, hn, hb', hst⟩ :=
      run_exact env j d1 m1 w1 (pushExec (some m.pc) ex) mj wj hrun1 hfree1 ha1
    unfold runLoop
    rw [hit]
    simp only [execOne, hx]
    exact ⟨d', ex', hr, by simp [pushExec] at hl; omega, hn, hb', hst⟩


/-- Iterations compose: `a + b` iterations are `a` iterations followed by `b` more. -/
theorem runLoop_add (env : Env) : ∀ (a b : Nat) (att : Bool) (d : Dbg) (m : Machine) (w : World) (ex : List Word)
    (att' : Bool) (d' : Dbg) (m' : Machine) (w' : World) (ex' : List Word),
    runLoop env a att d m w ex = .fuel att' d' m' w' ex' →
    runLoop env (a + b) att d m w ex = runLoop env b att' d' m' w' ex'
  | 0, b, att, d, m, w, ex, att', d', m', w', ex', h => by
    simp only [runLoop] at h
    injection h with h1 h2 h3 h4 h5
    subst h1 h2 h3 h4 h5
    simp
  | a + 1, b, att, d, m, w, ex, att', d', m', w', ex', h => by
    have e : a + 1 + b = (a + b) + 1 := by omega
    rw [e]
    unfold runLoop at h
    rw [show runLoop env (a + b + 1) att d m w ex = (match iter env att d m w with
      | .cont att d m w e => runLoop env (a + b) att d m w (pushExec e ex)
      | .done att d m w => .done att d m w ex
      | .exit c att d m w e => .exit c att d m w (pushExec e ex)
      | .panic s => .panic s) from rfl]
    cases hi : iter env att d m w with
    | cont att1 d1 m1 w1 e1 =>
      rw [hi] at h; simp only at h ⊢
      exact runLoop_add env a b att1 d1 m1 w1 _ att' d' m' w' ex' h
    | done _ _ _ _ => rw [hi] at h; cases h
    | exit _ _ _ _ _ _ => rw [hi] at h; cases h
    | panic _ => rw [hi] at h; cases h

/-- The plain loop composes. -/
theorem plain_add (env : Env) : ∀ (a b : Nat) (m : Machine) (w : World) (ma : Machine) (wa : World),
    C09.plain env a m w = .fuel ma wa → C09.plain env (a + b) m w = C09.plain env b ma wa
  | 0, b, m, w, ma, wa, h => by
    simp only [C09.plain, Run.loop] at h
    injection h with h1 h2
    subst h1 h2
    simp
  | a + 1, b, m, w, ma, wa, h => by
    have ha : After env m w (a + 1) ma wa := h
    obtain ⟨hb, m1, w1, hx, ha1⟩ := after_succ env m w a ma wa ha
    have e : a + 1 + b = (a + b) + 1 := by omega
    rw [e, C09.plain_step env (a + b) m w hb, hx]
    exact plain_add env a b m1 w1 ma wa ha1

/-- **`continue`**: runs exactly as far as the plain machine goes while no breakpoint and no HALT
is met, reading no command. -/
theorem continue_exact (env : Env) (j : Nat) (d : Dbg) (m : Machine) (w : World) (ex : List Word)
    (mj : Machine) (wj : World) (hs : d.status = .cont)
    (hfree : ∀ i mi wi, i < j → After env m w i mi wi →
      bpGet d.bps mi.pc = none ∧ sigOf (mi.read mi.pc) ≠ some .halt)
    (ha : After env m w j mj wj) :
    ∃ d' ex', runLoop env j true d m w ex = .fuel true d' mj wj ex' ∧ ex'.length = ex.length + j ∧
      d'.ncmds = d.ncmds ∧ d'.status = .cont := by
  obtain ⟨d', ex', h1, h2, h3, _, h5⟩ := run_exact env j d m w ex mj wj (Or.inl hs) hfree ha
  exact ⟨d', ex', h1, h2, h3, by rw [h5, hs]⟩

/-- **`step` over a call**: from status `StepOver{ret}` (what `step` sets up on JSR/JSRR/CALL,
`cmd_step`), if the plain machine first has PC = `ret` after `j` instructions — the whole
subroutine — with no breakpoint and no HALT on the way, then exactly those `j` instructions are
executed, no command is read meanwhile, and the debugger then waits for a command at `ret` before
executing anything else. -/
theorem stepOver_exact (env : Env) (j : Nat) (d : Dbg) (m : Machine) (w : World) (ex : List Word)
    (ret : Word) (mj : Machine) (wj : World) (hs : d.status = .stepOver ret)
    (hfree : ∀ i mi wi, i < j → After env m w i mi wi →
      bpGet d.bps mi.pc = none ∧ sigOf (mi.read mi.pc) ≠ some .halt)
    (hne : ∀ i mi wi, i < j → After env m w i mi wi → mi.pc ≠ ret)
    (ha : After env m w j mj wj) (hret : mj.pc = ret)
    (hbj : bpGet d.bps mj.pc = none) (hboundsj : Run.checkPcBounds mj = .eq)
    (hhj : sigOf (mj.read mj.pc) ≠ some .halt) :
    ∃ d' ex', runLoop env j true d m w ex = .fuel true d' mj wj ex' ∧ ex'.length = ex.length + j ∧
      d'.ncmds = d.ncmds ∧
      ∀ a d'' m'' w'', nextAction env d' mj wj = .action a d'' m'' w'' → d'.ncmds < d''.ncmds := by
  obtain ⟨d', ex', h1, h2, h3, h4, h5⟩ :=
    run_exact env j d m w ex mj wj (Or.inr (Or.inl ⟨ret, hs, hne⟩)) hfree ha
  refine ⟨d', ex', h1, h2, h3, fun a d'' m'' w'' hn => ?_⟩
  have hcl : Clear d' mj := clear_of_nobp_at d' mj (by rw [h4]; exact hbj) hboundsj hhj
  exact stepOver_pauses env d' mj wj ret (by rw [h5, hs]) hcl hret a d'' m'' w'' hn

/-- **`step out`**: from status `Finish`, if the first RET/RETS the plain machine meets is its
`j`-th next instruction (no breakpoint, no HALT on the way), exactly `j + 1` instructions are
executed — up to and including that return — no command is read, and the debugger is then
waiting for a command. -/
theorem stepOut_exact (env : Env) (j : Nat) (d : Dbg) (m : Machine) (w : World) (ex : List Word)
    (mj mk : Machine) (wj wk : World) (hs : d.status = .finish)
    (hfree : ∀ i mi wi, i < j + 1 → After env m w i mi wi →
      bpGet d.bps mi.pc = none ∧ sigOf (mi.read mi.pc) ≠ some .halt)
    (hne : ∀ i mi wi, i < j → After env m w i mi wi → sigOf (mi.read mi.pc) ≠ some .ret)
    (ha : After env m w j mj wj) (hret : sigOf (mj.read mj.pc) = some .ret)
    (hk : After env m w (j + 1) mk wk) :
    ∃ d' ex', runLoop env (j + 1) true d m w ex = .fuel true d' mk wk ex' ∧
      ex'.length = ex.length + j + 1 ∧ d'.ncmds = d.ncmds ∧ d'.status = .wait := by
  obtain ⟨d1, ex1, h1, h2, h3, h4, h5⟩ :=
    run_exact env j d m w ex mj wj (Or.inr (Or.inr ⟨hs, hne⟩))
      (fun i mi wi hi hai => hfree i mi wi (by omega) hai) ha
  rw [runLoop_add env j 1 true d m w ex true d1 mj wj ex1 h1]
  obtain ⟨hbj, hhj⟩ := hfree j mj wj (by omega) ha
  -- the plain machine's (j+1)-th state is one step from its j-th
  have hstep : After env mj wj 1 mk wk := by
    unfold After at ha hk ⊢
    have := plain_add env j 1 m w mj wj ha
    rw [this] at hk; exact hk
  obtain ⟨hboundsj, m1, w1, hx, ha1⟩ := after_succ env mj wj 0 mk wk hstep
  simp [After, C09.plain, Run.loop] at ha1
  obtain ⟨e1, e2⟩ := ha1; subst e1 e2
  have hcl : Clear d1 mj := clear_of_nobp_at d1 mj (by rw [h4]; exact hbj) hboundsj hhj
  have hit := stepOut_iter env d1 mj wj (by rw [h5, hs]) hcl
  rw [if_pos hret] at hit
  unfold runLoop
  rw [hit]
  simp only [execOne, hx, runLoop]
  refine ⟨_, _, rfl, by simp [pushExec]; omega, by simp [ran, say, h3], by simp [ran]⟩

end Lace.C10
