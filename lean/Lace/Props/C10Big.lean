/-
  C10 (continued) — `step into N` executes exactly N instructions, as one big-step theorem
  (`stepInto_exact`), by induction from `stepInto_iter` along the plain machine's trajectory.
-/
import Lace.Props.C10
namespace Lace.C10
open Lace Lace.Dbg Lace.Cmd Lace.DbgProofs

theorem clear_of_nobp (d : Dbg) (m : Machine) (hb : d.bps = []) (hbounds : Run.checkPcBounds m = .eq)
    (hh : sigOf (m.read m.pc) ≠ some .halt) : Clear d m :=
  ⟨hbounds, hh, fun ha => by simp [C11.Armed, bpGet, hb] at ha⟩

/-- state of the plain machine after exactly `i` instructions, if it is still running -/
def After (env : Env) (m : Machine) (w : World) (i : Nat) (mi : Machine) (wi : World) : Prop :=
  C09.plain env i m w = .fuel mi wi

theorem after_succ (env : Env) (m : Machine) (w : World) (i : Nat) (mj : Machine) (wj : World)
    (h : After env m w (i + 1) mj wj) :
    Run.checkPcBounds m = .eq ∧
    ∃ m1 w1, VM.execute env.stackOn env.minimal (m.read m.pc) (m.setPC (m.pc + 1)) w = .ok m1 w1 ∧
      After env m1 w1 i mj wj := by
  unfold After at h
  by_cases hpc : (m.pc == 0xFFFF#16) = true
  · simp [C09.plain, Run.loop, hpc] at h
  · cases hb : Run.checkPcBounds m with
    | lt => simp [C09.plain, Run.loop, hpc, hb] at h
    | gt => simp [C09.plain, Run.loop, hpc, hb] at h
    | eq =>
      rw [C09.plain_step env i m w hb] at h
      cases hx : VM.execute env.stackOn env.minimal (m.read m.pc) (m.setPC (m.pc + 1)) w with
      | ok m1 w1 => rw [hx] at h; exact ⟨rfl, m1, w1, rfl, h⟩
      | exit c w' => rw [hx] at h; simp at h
      | panic s => rw [hx] at h; simp at h

/-- **C10 (`step into N` executes exactly N).** From status `StepInto{c}` (what `step into c+1`
sets up) with no breakpoints, as long as the program keeps running and does not arrive at a HALT,
the first `j ≤ c + 1` iterations execute exactly `j` instructions — the plain machine's next `j`
— without reading any command; after `c + 1` of them the debugger is waiting for a command. -/
theorem stepInto_exact (env : Env) : ∀ (j : Nat) (c : Word) (d : Dbg) (m : Machine) (w : World) (ex : List Word)
    (mj : Machine) (wj : World),
    d.status = .stepInto c → d.bps = [] → j ≤ c.toNat + 1 →
    After env m w j mj wj →
    (∀ i mi wi, i < j → After env m w i mi wi → sigOf (mi.read mi.pc) ≠ some .halt) →
    ∃ d' ex', runLoop env j true d m w ex = .fuel true d' mj wj ex' ∧ ex'.length = ex.length + j ∧
      d'.ncmds = d.ncmds ∧ d'.bps = [] ∧
      d'.status = (if j = c.toNat + 1 then .wait else .stepInto (c - BitVec.ofNat 16 j))
  | 0, c, d, m, w, ex, mj, wj, hs, hb, hj, ha, hh => by
    simp [After, C09.plain, Run.loop] at ha
    obtain ⟨h1, h2⟩ := ha; subst h1 h2
    refine ⟨d, ex, rfl, rfl, rfl, hb, ?_⟩
    have : ¬ (0 = c.toNat + 1) := by omega
    simp [this, hs]
  | j + 1, c, d, m, w, ex, mj, wj, hs, hb, hj, ha, hh => by
    obtain ⟨hbounds, m1, w1, hx, ha1⟩ := after_succ env m w j mj wj ha
    have hh0 := hh 0 m w (by omega) (by simp [After, C09.plain, Run.loop])
    have hclear := clear_of_nobp d m hb hbounds hh0
    have hit := stepInto_iter env d m w c hs hclear
    unfold runLoop
    rw [hit]
    simp only [execOne, hx]
    -- the record after this iteration
    let d1 := ran { d with curBp := none, status := if c.toNat > 0 then Status.stepInto (c - 1) else Status.wait }
    by_cases hc : c.toNat > 0
    · have hs1 : d1.status = .stepInto (c - 1) := by simp [d1, ran, hc]
      have hc1 : (c - 1).toNat = c.toNat - 1 := by
        have := c.isLt
        simp [BitVec.toNat_sub]; omega
      have hh1 : ∀ i mi wi, i < j → After env m1 w1 i mi wi → sigOf (mi.read mi.pc) ≠ some .halt := by
        intro i mi wi hi hai
        apply hh (i + 1) mi wi (by omega)
        unfold After; rw [C09.plain_step env i m w hbounds, hx]; exact hai
      obtain ⟨d', ex', hr, hl, hn, hb', hst⟩ :=
        stepInto_exact env j (c - 1) d1 m1 w1 (pushExec (some m.pc) ex) mj wj hs1 (by simp [d1, ran, hb])
          (by omega) ha1 hh1
      refine ⟨d', ex', hr, by simp [pushExec] at hl; omega, by rw [hn]; simp [d1, ran], hb', ?_⟩
      rw [hst, hc1]
      have e1 : (j = c.toNat - 1 + 1) ↔ (j + 1 = c.toNat + 1) := by omega
      by_cases hje : j + 1 = c.toNat + 1
      · have hje' := e1.2 hje
        rw [if_pos hje', if_pos hje]
      · have : ¬ (j = c.toNat - 1 + 1) := fun h => hje (e1.1 h)
        simp only [this, hje, if_false]
        congr 1
        apply BitVec.eq_of_toNat_eq
        have hjlt : j < 65536 := by have := c.isLt; omega
        simp [BitVec.toNat_sub, BitVec.toNat_ofNat]
        have := c.isLt
        omega
    · -- c = 0: this was the last instruction; j must be 0
      have hc0 : c.toNat = 0 := by omega
      have hj0 : j = 0 := by omega
      subst hj0
      simp [After, C09.plain, Run.loop] at ha1
      obtain ⟨h1, h2⟩ := ha1; subst h1 h2
      refine ⟨d1, pushExec (some m.pc) ex, by simp [runLoop, d1], by simp [pushExec], by simp [d1, ran], by simp [d1, ran, hb], ?_⟩
      simp [d1, ran, hc, hc0]

end Lace.C10
