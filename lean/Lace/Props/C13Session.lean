/-
  C13 at the level of WHOLE SESSIONS.

  `Props/C13.lean` proves the confinement clauses per command.  Here they are lifted, by
  induction over the list, to arbitrary sequences of commands of any length.

  * `Quiet` : the commands C13 speaks about — `move` (register or memory), `goto`, `break add`,
    `break remove`, `print`, `registers`, `assembly`, `break list`.  None of them resumes
    execution.  `Inspect` : the last four.
  * `runQuiet env d m w cmds` : `runCommand` folded over `cmds` for as long as the result is
    `.next` (`quiet_next`: a quiet command always gives `.next`, with the world untouched).
  * `quiet_step` : everything one quiet command can change, in one record (`QStep`).
  * `session_frame` : after any quiet session the world, the initial image, the origin, the
    status, the rest of the script, the condition code and the machine's `orig` are as before.
  * `session_mem_changed`, `session_reg_changed`, `session_pc_changed`, `session_bps_changed` :
    a memory word / register / the PC / the breakpoint list differs after the session only if
    the session contains, at some position, an ACCEPTED `move <location>` resolving to exactly
    that word (resolved against the machine as it was at that position) / a `move` to exactly
    that register / an accepted `goto` / a `break add` or `break remove`.
  * `session_pc_inUser` : the PC after the session is the old PC or lies in `[origin, 0xFE00)`.
  * `session_confined` : the summary asked for by C13 (memory outside `[origin, 0xFE00)` is never
    changed, by sessions of any length; the simple "no such command in the list ⇒ unchanged"
    forms; the frame).
  * `session_readonly` : a session of inspection commands leaves machine, world and breakpoint
    list exactly as they were.
  * `actionLoop_quiet` : the same for the debugger's own read loop: with the status `wait` and a
    script that starts with quiet commands, `actionLoop` consumes them one by one and continues
    from a state that satisfies the confinement clauses (this ties `runQuiet`-style folding to
    the model of `next_action`, where the record's `cmds` field shrinks as commands are read).
  Non-vacuity: `demoCmds`, `demo_session` and the examples at the end (an accepted move, four
  refused commands — among them a PC offset that overflows 16 bits —, a register move and three
  inspection commands, at origin x3000).
-/
import Lace.Props.C13
namespace Lace.C13
open Lace Lace.Dbg Lace.Cmd Lace.DbgProofs

/-- The commands covered by C13: they do not resume execution. -/
def Quiet : Command → Bool
  | .move _ _ | .goto _ | .breakAdd _ | .breakRemove _
  | .print _ | .registers | .assembly _ | .breakList => true
  | _ => false

/-- The inspection commands. -/
def Inspect : Command → Bool
  | .print _ | .registers | .assembly _ | .breakList => true
  | _ => false

theorem inspect_quiet {c : Command} (h : Inspect c = true) : Quiet c = true := by
  cases c <;> simp_all [Inspect, Quiet]

/-- `runCommand` folded over a list of commands, for as long as the result is `.next`. -/
def runQuiet (env : Env) : Dbg → Machine → World → List Command → Dbg × Machine × World
  | d, m, w, [] => (d, m, w)
  | d, m, w, c :: cs =>
    match runCommand env d m w c with
    | .next d' m' w' => runQuiet env d' m' w' cs
    | _ => (d, m, w)

@[simp] theorem runQuiet_nil (env : Env) (d : Dbg) (m : Machine) (w : World) :
    runQuiet env d m w [] = (d, m, w) := rfl

theorem runQuiet_cons {env : Env} {d d' : Dbg} {m m' : Machine} {w w' : World} {c : Command}
    (h : runCommand env d m w c = .next d' m' w') (cs : List Command) :
    runQuiet env d m w (c :: cs) = runQuiet env d' m' w' cs := by
  simp only [runQuiet, h]

/-- A location accepted by `resolveUser` lies in user space (needs nothing about labels). -/
theorem resolveUser_inUser {env : Env} {orig : Word} {m : Machine} {l : MemLoc} {a : Word}
    (h : resolveUser env orig m l = .ok a) : inUser orig a = true := by
  unfold resolveUser at h
  split at h
  · simp at h
  · split at h
    · rename_i hu; cases h; exact hu
    · simp at h

/-! ### One quiet command -/

/-- Everything one quiet command may change: `d m` before, `d' m'` after. -/
structure QStep (env : Env) (d : Dbg) (m : Machine) (c : Command) (d' : Dbg) (m' : Machine) : Prop where
  initial : d'.initial = d.initial
  status : d'.status = d.status
  cmds : d'.cmds = d.cmds
  cc : m'.cc = m.cc
  morig : m'.orig = m.orig
  /-- a memory word changes only as the accepted target of `move <location>` -/
  mem : ∀ a, m'.read a ≠ m.read a →
    ∃ l v, c = .move (.mem l) v ∧ resolveUser env (origOf d) m l = .ok a
  /-- a register changes only by `move rK` -/
  reg : ∀ r, m'.getReg r ≠ m.getReg r → ∃ v, c = .move (.reg r) v
  /-- the PC changes only by an accepted `goto` -/
  pc : m'.pc ≠ m.pc → ∃ l, c = .goto l ∧ resolveUser env (origOf d) m l = .ok m'.pc
  /-- the breakpoint list changes only by `break add` / `break remove` -/
  bps : d'.bps ≠ d.bps → ∃ l, c = .breakAdd l ∨ c = .breakRemove l
  /-- an inspection command changes neither machine nor breakpoints -/
  inspect : Inspect c = true → m' = m ∧ d'.bps = d.bps

/-- A step that leaves the machine alone and the record up to its log. -/
theorem QStep.of_same {env : Env} {d : Dbg} {m : Machine} {c : Command} {d' : Dbg}
    (h : SameButLog (base d) d') : QStep env d m c d' m :=
  { initial := h.1, status := h.2.1, cmds := h.2.2.2.2.2.1, cc := rfl, morig := rfl,
    mem := fun _ hh => absurd rfl hh, reg := fun _ hh => absurd rfl hh, pc := fun hh => absurd rfl hh,
    bps := fun hh => absurd h.2.2.1 hh, inspect := fun _ => ⟨rfl, h.2.2.1⟩ }

theorem runCommand_move_mem (env : Env) (d : Dbg) (m : Machine) (w : World) (l : MemLoc) (v : Word) :
    runCommand env d m w (.move (.mem l) v) =
      match resolveUser env (origOf d) m l with
      | .error e => .next (say (base d) e) m w
      | .ok a => .next (base d) (m.write a v) w := rfl

theorem runCommand_goto (env : Env) (d : Dbg) (m : Machine) (w : World) (l : MemLoc) :
    runCommand env d m w (.goto l) =
      match resolveUser env (origOf d) m l with
      | .error e => .next (say (base d) e) m w
      | .ok a => .next (base d) (m.setPC a) w := rfl

theorem runCommand_breakAdd (env : Env) (d : Dbg) (m : Machine) (w : World) (l : MemLoc) :
    runCommand env d m w (.breakAdd l) =
      match resolveUser env (origOf d) m l with
      | .error e => .next (say (base d) e) m w
      | .ok a =>
        if (bpInsert d.bps { address := a, predefined := false }).2
        then .next (say (base d) "Breakpoints::AlreadyExists") m w
        else .next { base d with bps := (bpInsert d.bps { address := a, predefined := false }).1 } m w := rfl

theorem runCommand_breakRemove (env : Env) (d : Dbg) (m : Machine) (w : World) (l : MemLoc) :
    runCommand env d m w (.breakRemove l) =
      match resolveUser env (origOf d) m l with
      | .error e => .next (say (base d) e) m w
      | .ok a =>
        if (bpRemove d.bps a).2 then .next { base d with bps := (bpRemove d.bps a).1 } m w
        else .next (say (base d) "Breakpoints::NotFound") m w := rfl

/-- **C13, one step.** A quiet command always gives `.next`, never touches the world, and
changes the debugger record and the machine only as recorded in `QStep`. -/
theorem quiet_step (env : Env) (d : Dbg) (m : Machine) (w : World) (c : Command) (hc : Quiet c = true) :
    ∃ d' m', runCommand env d m w c = .next d' m' w ∧ QStep env d m c d' m' := by
  cases c <;> simp only [Quiet] at hc
  case registers => exact ⟨_, _, rfl, QStep.of_same (printRegisters_same _ _)⟩
  case print l =>
    cases l with
    | reg r => exact ⟨_, _, rfl, QStep.of_same (printInteger_same _ _)⟩
    | mem l =>
      simp only [runCommand]
      split
      · exact ⟨_, _, rfl, QStep.of_same (say_same _ _)⟩
      · exact ⟨_, _, rfl, QStep.of_same (printInteger_same _ _)⟩
  case assembly l =>
    simp only [runCommand]
    split
    · exact ⟨_, _, rfl, QStep.of_same (say_same _ _)⟩
    · split
      · exact ⟨_, _, rfl, QStep.of_same (SameButLog.refl _)⟩
      · split
        · split
          · exact ⟨_, _, rfl, QStep.of_same (SameButLog.refl _)⟩
          · exact ⟨_, _, rfl, QStep.of_same (sayL_same _ _)⟩
        · exact ⟨_, _, rfl, QStep.of_same (SameButLog.refl _)⟩
  case breakList =>
    simp only [runCommand]
    split
    · exact ⟨_, _, rfl, QStep.of_same (say_same _ _)⟩
    · exact ⟨_, _, rfl, QStep.of_same (foldl_same _ (fun d _ => sayL_same d _) _ _)⟩
  case move l v =>
    cases l with
    | reg r =>
      refine ⟨base d, m.setReg r v, rfl, ?_⟩
      exact
        { initial := rfl, status := rfl, cmds := rfl, cc := rfl, morig := rfl,
          mem := fun _ hh => absurd rfl hh,
          reg := fun r' hh => by
            by_cases e : r' = r
            · subst e; exact ⟨v, rfl⟩
            · exact absurd (Machine.getReg_setReg_ne _ _ _ _ e) hh
          pc := fun hh => absurd rfl hh,
          bps := fun hh => absurd rfl hh,
          inspect := fun hh => by simp [Inspect] at hh }
    | mem l =>
      rw [runCommand_move_mem]
      cases hr : resolveUser env (origOf d) m l with
      | error e => exact ⟨_, _, rfl, QStep.of_same (say_same _ _)⟩
      | ok a =>
        refine ⟨base d, m.write a v, rfl, ?_⟩
        exact
          { initial := rfl, status := rfl, cmds := rfl, cc := rfl, morig := rfl,
            mem := fun a' hh => by
              by_cases e : a' = a
              · subst e; exact ⟨l, v, rfl, hr⟩
              · exact absurd (Machine.read_write_ne _ _ _ _ e) hh
            reg := fun _ hh => absurd rfl hh,
            pc := fun hh => absurd rfl hh,
            bps := fun hh => absurd rfl hh,
            inspect := fun hh => by simp [Inspect] at hh }
  case goto l =>
    rw [runCommand_goto]
    cases hr : resolveUser env (origOf d) m l with
    | error e => exact ⟨_, _, rfl, QStep.of_same (say_same _ _)⟩
    | ok a =>
      refine ⟨base d, m.setPC a, rfl, ?_⟩
      exact
        { initial := rfl, status := rfl, cmds := rfl, cc := rfl, morig := rfl,
          mem := fun _ hh => absurd rfl hh,
          reg := fun _ hh => absurd rfl hh,
          pc := fun _ => ⟨l, rfl, hr⟩,
          bps := fun hh => absurd rfl hh,
          inspect := fun hh => by simp [Inspect] at hh }
  case breakAdd l =>
    rw [runCommand_breakAdd]
    cases hr : resolveUser env (origOf d) m l with
    | error e => exact ⟨_, _, rfl, QStep.of_same (say_same _ _)⟩
    | ok a =>
      dsimp only
      split
      · exact ⟨_, _, rfl, QStep.of_same (say_same _ _)⟩
      · refine ⟨_, m, rfl, ?_⟩
        exact
          { initial := rfl, status := rfl, cmds := rfl, cc := rfl, morig := rfl,
            mem := fun _ hh => absurd rfl hh,
            reg := fun _ hh => absurd rfl hh,
            pc := fun hh => absurd rfl hh,
            bps := fun _ => ⟨l, Or.inl rfl⟩,
            inspect := fun hh => by simp [Inspect] at hh }
  case breakRemove l =>
    rw [runCommand_breakRemove]
    cases hr : resolveUser env (origOf d) m l with
    | error e => exact ⟨_, _, rfl, QStep.of_same (say_same _ _)⟩
    | ok a =>
      dsimp only
      split
      · refine ⟨_, m, rfl, ?_⟩
        exact
          { initial := rfl, status := rfl, cmds := rfl, cc := rfl, morig := rfl,
            mem := fun _ hh => absurd rfl hh,
            reg := fun _ hh => absurd rfl hh,
            pc := fun hh => absurd rfl hh,
            bps := fun _ => ⟨l, Or.inr rfl⟩,
            inspect := fun hh => by simp [Inspect] at hh }
      · exact ⟨_, _, rfl, QStep.of_same (say_same _ _)⟩
  all_goals simp at hc

/-- A quiet command always gives `.next` (it neither raises an action, nor exits, nor panics),
and leaves the world alone. -/
theorem quiet_next (env : Env) (d : Dbg) (m : Machine) (w : World) (c : Command) (hc : Quiet c = true) :
    ∃ d' m', runCommand env d m w c = .next d' m' w :=
  let ⟨d', m', h, _⟩ := quiet_step env d m w c hc
  ⟨d', m', h⟩

theorem QStep.origOf {env : Env} {d : Dbg} {m : Machine} {c : Command} {d' : Dbg} {m' : Machine}
    (h : QStep env d m c d' m') : origOf d' = origOf d := by
  unfold Dbg.origOf; rw [h.initial]

/-! ### Sessions -/

/-- **C13, sessions: the frame.** After any number of quiet commands the world (the program's
input and output), the initial image, the origin, the status (nothing was resumed), the rest
of the script, the condition code and the machine's origin field are exactly as before. -/
theorem session_frame (env : Env) (cmds : List Command) : ∀ (d : Dbg) (m : Machine) (w : World),
    (∀ c ∈ cmds, Quiet c = true) →
    (runQuiet env d m w cmds).2.2 = w ∧
    (runQuiet env d m w cmds).1.initial = d.initial ∧
    origOf (runQuiet env d m w cmds).1 = origOf d ∧
    (runQuiet env d m w cmds).1.status = d.status ∧
    (runQuiet env d m w cmds).1.cmds = d.cmds ∧
    (runQuiet env d m w cmds).2.1.cc = m.cc ∧
    (runQuiet env d m w cmds).2.1.orig = m.orig := by
  induction cmds with
  | nil => intro d m w _; exact ⟨rfl, rfl, rfl, rfl, rfl, rfl, rfl⟩
  | cons c cs ih =>
    intro d m w hq
    obtain ⟨d1, m1, hrun, st⟩ := quiet_step env d m w c (hq c (by simp))
    rw [runQuiet_cons hrun]
    obtain ⟨h1, h2, h3, h4, h5, h6, h7⟩ := ih d1 m1 w (fun c' hc' => hq c' (by simp [hc']))
    exact ⟨h1, h2.trans st.initial, h3.trans st.origOf, h4.trans st.status, h5.trans st.cmds,
      h6.trans st.cc, h7.trans st.morig⟩

/-- **C13, sessions: memory.** A memory word differs after the session only if the session
contains, at some position, a `move <location> value` whose location — resolved against the
machine as it was at that position — was accepted and is exactly that word. -/
theorem session_mem_changed (env : Env) (cmds : List Command) : ∀ (d : Dbg) (m : Machine) (w : World),
    (∀ c ∈ cmds, Quiet c = true) → ∀ a, (runQuiet env d m w cmds).2.1.read a ≠ m.read a →
    ∃ pre l v post, cmds = pre ++ .move (.mem l) v :: post ∧
      resolveUser env (origOf d) (runQuiet env d m w pre).2.1 l = .ok a := by
  induction cmds with
  | nil => intro d m w _ a h; exact absurd rfl h
  | cons c cs ih =>
    intro d m w hq a h
    obtain ⟨d1, m1, hrun, st⟩ := quiet_step env d m w c (hq c (by simp))
    rw [runQuiet_cons hrun] at h
    by_cases h1 : m1.read a = m.read a
    · rw [← h1] at h
      obtain ⟨pre, l, v, post, he, hr⟩ := ih d1 m1 w (fun c' hc' => hq c' (by simp [hc'])) a h
      refine ⟨c :: pre, l, v, post, by rw [he]; rfl, ?_⟩
      rw [runQuiet_cons hrun, ← st.origOf]; exact hr
    · obtain ⟨l, v, he, hr⟩ := st.mem a h1
      exact ⟨[], l, v, cs, by rw [he]; rfl, hr⟩

/-- **C13, sessions: registers.** A register differs after the session only if the session
contains a `move` to exactly that register. -/
theorem session_reg_changed (env : Env) (cmds : List Command) : ∀ (d : Dbg) (m : Machine) (w : World),
    (∀ c ∈ cmds, Quiet c = true) → ∀ r, (runQuiet env d m w cmds).2.1.getReg r ≠ m.getReg r →
    ∃ v, .move (.reg r) v ∈ cmds := by
  induction cmds with
  | nil => intro d m w _ r h; exact absurd rfl h
  | cons c cs ih =>
    intro d m w hq r h
    obtain ⟨d1, m1, hrun, st⟩ := quiet_step env d m w c (hq c (by simp))
    rw [runQuiet_cons hrun] at h
    by_cases h1 : m1.getReg r = m.getReg r
    · rw [← h1] at h
      obtain ⟨v, hv⟩ := ih d1 m1 w (fun c' hc' => hq c' (by simp [hc'])) r h
      exact ⟨v, List.mem_cons_of_mem _ hv⟩
    · obtain ⟨v, he⟩ := st.reg r h1
      exact ⟨v, by rw [he]; exact List.mem_cons_self⟩

/-- **C13, sessions: PC.** The PC differs after the session only if the session contains, at
some position, a `goto` whose location was accepted there. -/
theorem session_pc_changed (env : Env) (cmds : List Command) : ∀ (d : Dbg) (m : Machine) (w : World),
    (∀ c ∈ cmds, Quiet c = true) → (runQuiet env d m w cmds).2.1.pc ≠ m.pc →
    ∃ pre l post a, cmds = pre ++ .goto l :: post ∧
      resolveUser env (origOf d) (runQuiet env d m w pre).2.1 l = .ok a := by
  induction cmds with
  | nil => intro d m w _ h; exact absurd rfl h
  | cons c cs ih =>
    intro d m w hq h
    obtain ⟨d1, m1, hrun, st⟩ := quiet_step env d m w c (hq c (by simp))
    rw [runQuiet_cons hrun] at h
    by_cases h1 : m1.pc = m.pc
    · rw [← h1] at h
      obtain ⟨pre, l, post, a, he, hr⟩ := ih d1 m1 w (fun c' hc' => hq c' (by simp [hc'])) h
      refine ⟨c :: pre, l, post, a, by rw [he]; rfl, ?_⟩
      rw [runQuiet_cons hrun, ← st.origOf]; exact hr
    · obtain ⟨l, he, hr⟩ := st.pc h1
      exact ⟨[], l, cs, m1.pc, by rw [he]; rfl, hr⟩

/-- **C13, sessions: PC.** After the session the PC is the old PC or lies in `[origin, 0xFE00)`. -/
theorem session_pc_inUser (env : Env) (cmds : List Command) : ∀ (d : Dbg) (m : Machine) (w : World),
    (∀ c ∈ cmds, Quiet c = true) →
    (runQuiet env d m w cmds).2.1.pc = m.pc ∨ inUser (origOf d) (runQuiet env d m w cmds).2.1.pc = true := by
  induction cmds with
  | nil => intro d m w _; exact Or.inl rfl
  | cons c cs ih =>
    intro d m w hq
    obtain ⟨d1, m1, hrun, st⟩ := quiet_step env d m w c (hq c (by simp))
    rw [runQuiet_cons hrun]
    rcases ih d1 m1 w (fun c' hc' => hq c' (by simp [hc'])) with h | h
    · by_cases h1 : m1.pc = m.pc
      · exact Or.inl (h.trans h1)
      · obtain ⟨l, _, hr⟩ := st.pc h1
        right; rw [h]; exact resolveUser_inUser hr
    · right; rw [← st.origOf]; exact h

/-- **C13, sessions: breakpoints.** The breakpoint list differs after the session only if the
session contains a `break add` or a `break remove`. -/
theorem session_bps_changed (env : Env) (cmds : List Command) : ∀ (d : Dbg) (m : Machine) (w : World),
    (∀ c ∈ cmds, Quiet c = true) → (runQuiet env d m w cmds).1.bps ≠ d.bps →
    ∃ l, .breakAdd l ∈ cmds ∨ .breakRemove l ∈ cmds := by
  induction cmds with
  | nil => intro d m w _ h; exact absurd rfl h
  | cons c cs ih =>
    intro d m w hq h
    obtain ⟨d1, m1, hrun, st⟩ := quiet_step env d m w c (hq c (by simp))
    rw [runQuiet_cons hrun] at h
    by_cases h1 : d1.bps = d.bps
    · rw [← h1] at h
      obtain ⟨l, hl⟩ := ih d1 m1 w (fun c' hc' => hq c' (by simp [hc'])) h
      exact ⟨l, hl.imp (List.mem_cons_of_mem _) (List.mem_cons_of_mem _)⟩
    · obtain ⟨l, he⟩ := st.bps h1
      refine ⟨l, he.imp ?_ ?_⟩ <;> (intro e; rw [e]; exact List.mem_cons_self)

/-- **C13, sessions.** For every assembler environment, debugger record, machine and world and
every list — of any length — of `move` / `goto` / `break add` / `break remove` / `print` /
`registers` / `assembly` / `break list` commands:

(a) every memory word outside `[origin, 0xFE00)` holds what it held before;
(b) a memory word that differs is the accepted target of a `move <location>` of the session
    (resolved against the machine at that position in the session); in particular a session
    without `move <location>` leaves all of memory, one without `move rK` all registers, one
    without `goto` the PC and one without `break add/remove` the breakpoint list unchanged;
(c) the world, the initial image, the origin and the condition code are unchanged. -/
theorem session_confined (env : Env) (d : Dbg) (m : Machine) (w : World) (cmds : List Command)
    (hq : ∀ c ∈ cmds, Quiet c = true) :
    -- (a)
    (∀ a, inUser (origOf d) a = false → (runQuiet env d m w cmds).2.1.read a = m.read a) ∧
    -- (b)
    (∀ a, (runQuiet env d m w cmds).2.1.read a ≠ m.read a →
      ∃ pre l v post, cmds = pre ++ .move (.mem l) v :: post ∧
        resolveUser env (origOf d) (runQuiet env d m w pre).2.1 l = .ok a ∧ inUser (origOf d) a = true) ∧
    ((∀ l v, .move (.mem l) v ∉ cmds) → ∀ a, (runQuiet env d m w cmds).2.1.read a = m.read a) ∧
    (∀ r, (∀ v, .move (.reg r) v ∉ cmds) → (runQuiet env d m w cmds).2.1.getReg r = m.getReg r) ∧
    ((∀ l, .goto l ∉ cmds) → (runQuiet env d m w cmds).2.1.pc = m.pc) ∧
    ((∀ l, .breakAdd l ∉ cmds ∧ .breakRemove l ∉ cmds) → (runQuiet env d m w cmds).1.bps = d.bps) ∧
    -- (c)
    (runQuiet env d m w cmds).2.2 = w ∧
    (runQuiet env d m w cmds).1.initial = d.initial ∧
    origOf (runQuiet env d m w cmds).1 = origOf d ∧
    (runQuiet env d m w cmds).2.1.cc = m.cc := by
  have hb : ∀ a, (runQuiet env d m w cmds).2.1.read a ≠ m.read a →
      ∃ pre l v post, cmds = pre ++ .move (.mem l) v :: post ∧
        resolveUser env (origOf d) (runQuiet env d m w pre).2.1 l = .ok a ∧ inUser (origOf d) a = true := by
    intro a h
    obtain ⟨pre, l, v, post, he, hr⟩ := session_mem_changed env cmds d m w hq a h
    exact ⟨pre, l, v, post, he, hr, resolveUser_inUser hr⟩
  obtain ⟨f1, f2, f3, _, _, f6, _⟩ := session_frame env cmds d m w hq
  refine ⟨?_, hb, ?_, ?_, ?_, ?_, f1, f2, f3, f6⟩
  · intro a ha
    apply Decidable.byContradiction
    intro h
    obtain ⟨_, _, _, _, _, _, hu⟩ := hb a h
    rw [ha] at hu; cases hu
  · intro hno a
    apply Decidable.byContradiction
    intro h
    obtain ⟨pre, l, v, post, he, _⟩ := hb a h
    exact hno l v (by rw [he]; simp)
  · intro r hno
    apply Decidable.byContradiction
    intro h
    obtain ⟨v, hv⟩ := session_reg_changed env cmds d m w hq r h
    exact hno v hv
  · intro hno
    apply Decidable.byContradiction
    intro h
    obtain ⟨pre, l, post, a, he, _⟩ := session_pc_changed env cmds d m w hq h
    exact hno l (by rw [he]; simp)
  · intro hno
    apply Decidable.byContradiction
    intro h
    obtain ⟨l, hl⟩ := session_bps_changed env cmds d m w hq h
    exact hl.elim (hno l).1 (hno l).2

/-- **C13, sessions.** Any number of `print` / `registers` / `assembly` / `break list` commands
leave the machine, the world and the breakpoint list exactly as they were. -/
theorem session_readonly (env : Env) (cmds : List Command) : ∀ (d : Dbg) (m : Machine) (w : World),
    (∀ c ∈ cmds, Inspect c = true) →
    (runQuiet env d m w cmds).2.1 = m ∧ (runQuiet env d m w cmds).2.2 = w ∧
    (runQuiet env d m w cmds).1.bps = d.bps := by
  induction cmds with
  | nil => intro d m w _; exact ⟨rfl, rfl, rfl⟩
  | cons c cs ih =>
    intro d m w hq
    have hi := hq c (by simp)
    obtain ⟨d1, m1, hrun, st⟩ := quiet_step env d m w c (inspect_quiet hi)
    obtain ⟨hm, hb⟩ := st.inspect hi
    rw [runQuiet_cons hrun]
    obtain ⟨h1, h2, h3⟩ := ih d1 m1 w (fun c' hc' => hq c' (by simp [hc']))
    exact ⟨h1.trans hm, h2, h3.trans hb⟩

/-! ### The debugger's own read loop

`actionLoop` (the model of `next_action`) hands `runCommand` a record whose `cmds` field — the
rest of the script — has already been shortened.  `runCommand` never looks at that field, so a
run of quiet commands at the head of the script is consumed exactly as `runQuiet` says. -/

/-- Replace the rest of the script. -/
def setCmds (x : List Command) (d : Dbg) : Dbg := { d with cmds := x }

def setCmdsR (x : List Command) : CmdResult → CmdResult
  | .next d m w => .next (setCmds x d) m w
  | .action a d m w => .action a (setCmds x d) m w
  | .exit c d m w => .exit c (setCmds x d) m w
  | .panic s => .panic s

theorem foldl_sayL_setCmds {α : Type} (f : α → List Char) (x : List Command) (l : List α) (d : Dbg) :
    l.foldl (fun d b => sayL d (f b)) (setCmds x d) = setCmds x (l.foldl (fun d b => sayL d (f b)) d) := by
  induction l generalizing d with
  | nil => rfl
  | cons b bs ih => simp only [List.foldl_cons]; exact ih (sayL d (f b))

theorem runCommand_print_mem (env : Env) (d : Dbg) (m : Machine) (w : World) (l : MemLoc) :
    runCommand env d m w (.print (.mem l)) =
      match resolveLocation env (origOf d) m l with
      | .error e => .next (say (base d) e) m w
      | .ok a => .next (printInteger (base d) (m.read a)) m w := rfl

theorem runCommand_assembly (env : Env) (d : Dbg) (m : Machine) (w : World) (l : MemLoc) :
    runCommand env d m w (.assembly l) =
      match resolveLocation env (origOf d) m l with
      | .error e => .next (say (base d) e) m w
      | .ok a =>
        if a < origOf d then .next (base d) m w
        else match env.stmtText (a.toNat - (origOf d).toNat) with
          | some t => .next (if t.isEmpty then base d else sayL (base d) t) m w
          | none => .next (base d) m w := rfl

theorem runCommand_breakList (env : Env) (d : Dbg) (m : Machine) (w : World) :
    runCommand env d m w .breakList =
      if d.bps.isEmpty then .next (say (base d) "Breakpoints::Empty") m w
      else .next (d.bps.foldl (fun d b => sayL d ('x' :: hex4 b.address)) (base d)) m w := rfl

/-- `runCommand` does not look at the rest of the script (quiet commands). -/
theorem runCommand_setCmds (env : Env) (d : Dbg) (m : Machine) (w : World) (c : Command) (x : List Command)
    (hc : Quiet c = true) :
    runCommand env (setCmds x d) m w c = setCmdsR x (runCommand env d m w c) := by
  have ho : origOf (setCmds x d) = origOf d := rfl
  have hb : (setCmds x d).bps = d.bps := rfl
  cases c <;> simp only [Quiet] at hc
  case registers => rfl
  case print l =>
    cases l with
    | reg r => rfl
    | mem l =>
      rw [runCommand_print_mem, runCommand_print_mem, ho]
      cases resolveLocation env (origOf d) m l <;> rfl
  case assembly l =>
    rw [runCommand_assembly, runCommand_assembly, ho]
    cases resolveLocation env (origOf d) m l with
    | error e => rfl
    | ok a =>
      dsimp only
      split
      · rfl
      · cases env.stmtText (a.toNat - (origOf d).toNat) with
        | none => rfl
        | some t => dsimp only; split <;> rfl
  case breakList =>
    rw [runCommand_breakList, runCommand_breakList, hb]
    split
    · rfl
    · exact congrArg (fun d' => CmdResult.next d' m w)
        (foldl_sayL_setCmds (fun b : Breakpoint => 'x' :: hex4 b.address) x d.bps (base d))
  case move l v =>
    cases l with
    | reg r => rfl
    | mem l =>
      rw [runCommand_move_mem, runCommand_move_mem, ho]
      cases resolveUser env (origOf d) m l <;> rfl
  case goto l =>
    rw [runCommand_goto, runCommand_goto, ho]
    cases resolveUser env (origOf d) m l <;> rfl
  case breakAdd l =>
    rw [runCommand_breakAdd, runCommand_breakAdd, ho, hb]
    cases resolveUser env (origOf d) m l with
    | error e => rfl
    | ok a => dsimp only; split <;> rfl
  case breakRemove l =>
    rw [runCommand_breakRemove, runCommand_breakRemove, ho, hb]
    cases resolveUser env (origOf d) m l with
    | error e => rfl
    | ok a => dsimp only; split <;> rfl
  all_goals simp at hc

theorem runQuiet_setCmds (env : Env) (x : List Command) (cmds : List Command) :
    ∀ (d : Dbg) (m : Machine) (w : World), (∀ c ∈ cmds, Quiet c = true) →
    runQuiet env (setCmds x d) m w cmds =
      (setCmds x (runQuiet env d m w cmds).1, (runQuiet env d m w cmds).2.1, (runQuiet env d m w cmds).2.2) := by
  induction cmds with
  | nil => intro d m w _; rfl
  | cons c cs ih =>
    intro d m w hq
    have hc := hq c (by simp)
    obtain ⟨d1, m1, hrun, _⟩ := quiet_step env d m w c hc
    have hrun' : runCommand env (setCmds x d) m w c = .next (setCmds x d1) m1 w := by
      rw [runCommand_setCmds env d m w c x hc, hrun]; rfl
    rw [runQuiet_cons hrun, runQuiet_cons hrun']
    exact ih d1 m1 w (fun c' hc' => hq c' (by simp [hc']))

/-- One round of the status loop while waiting: the next command of the script is run. -/
theorem actionLoop_wait_cons (env : Env) {n : Nat} {d d1 : Dbg} {m m1 : Machine} {w w1 : World}
    {instr : Option Sig} {c : Command} {rest : List Command}
    (hs : d.status = .wait) (hc : d.cmds = c :: rest)
    (hr : runCommand env { d with cmds := rest } m w c = .next d1 m1 w1) :
    actionLoop env (n + 1) d m w instr = actionLoop env n d1 m1 w1 instr := by
  rw [actionLoop]
  split
  · split
    · rename_i hnil; rw [hc] at hnil; cases hnil
    · rename_i c' rest' hc'
      rw [hc] at hc'; cases hc'
      rw [hr]
  all_goals (rename_i h; rw [hs] at h; cases h)

/-- **C13, sessions, in the model of `next_action`.** When the debugger is waiting for commands
and the script starts with the quiet commands `cmds`, the status loop reads exactly these and
carries on — still waiting, with `rest` as the script — from the record, machine and world that
`runQuiet` computes; so `session_confined` and `session_readonly` speak about what
`next_action` does. -/
theorem actionLoop_quiet (env : Env) (instr : Option Sig) (cmds : List Command) :
    ∀ (rest : List Command) (n : Nat) (d : Dbg) (m : Machine) (w : World),
    d.status = .wait → d.cmds = cmds ++ rest → (∀ c ∈ cmds, Quiet c = true) →
    actionLoop env (cmds.length + n) d m w instr =
      actionLoop env n (setCmds rest (runQuiet env d m w cmds).1)
        (runQuiet env d m w cmds).2.1 (runQuiet env d m w cmds).2.2 instr ∧
    (setCmds rest (runQuiet env d m w cmds).1).status = .wait := by
  induction cmds with
  | nil =>
    intro rest n d m w hs hcm _
    have hd : setCmds rest d = d := by cases d; simp only [setCmds]; simp at hcm; rw [hcm]
    show actionLoop env (0 + n) d m w instr = actionLoop env n (setCmds rest d) m w instr ∧
      (setCmds rest d).status = .wait
    rw [hd, Nat.zero_add]; exact ⟨rfl, hs⟩
  | cons c cs ih =>
    intro rest n d m w hs hcm hq
    have hc := hq c (by simp)
    have hq' : ∀ c' ∈ cs, Quiet c' = true := fun c' hc' => hq c' (by simp [hc'])
    obtain ⟨d1, m1, hrun, st⟩ := quiet_step env d m w c hc
    have hrun' : runCommand env { d with cmds := cs ++ rest } m w c = .next (setCmds (cs ++ rest) d1) m1 w := by
      have := runCommand_setCmds env d m w c (cs ++ rest) hc
      rw [hrun] at this; exact this
    have hlen : (c :: cs).length + n = (cs.length + n) + 1 := by simp only [List.length_cons]; omega
    have hcm' : d.cmds = c :: (cs ++ rest) := hcm
    obtain ⟨ih1, ih2⟩ := ih rest n (setCmds (cs ++ rest) d1) m1 w (st.status.trans hs) rfl hq'
    rw [runQuiet_setCmds env (cs ++ rest) cs d1 m1 w hq'] at ih1 ih2
    rw [hlen, actionLoop_wait_cons env hs hcm' hrun', runQuiet_cons hrun]
    exact ⟨ih1, ih2⟩

/-! ### Heads of sessions (used by the demo below) -/

/-- An accepted `move <location>` at the head of a session. -/
theorem runQuiet_move_mem_ok {env : Env} {d : Dbg} {m : Machine} {w : World} {l : MemLoc} {a : Word}
    (h : resolveUser env (origOf d) m l = .ok a) (v : Word) (cs : List Command) :
    runQuiet env d m w (.move (.mem l) v :: cs) = runQuiet env (base d) (m.write a v) w cs := by
  apply runQuiet_cons; rw [runCommand_move_mem, h]

/-- A refused targeted command at the head of a session: an error line, nothing else. -/
theorem runQuiet_refused {env : Env} {d : Dbg} {m : Machine} {w : World} {c : Command} {l : MemLoc}
    {e : String} (hc : Targeted c l) (h : resolveUser env (origOf d) m l = .error e) (cs : List Command) :
    runQuiet env d m w (c :: cs) = runQuiet env (say (base d) e) m w cs := by
  apply runQuiet_cons
  cases hc
  · rw [runCommand_move_mem, h]
  · rw [runCommand_goto, h]
  · rw [runCommand_breakAdd, h]
  · rw [runCommand_breakRemove, h]

theorem runQuiet_move_reg (env : Env) (d : Dbg) (m : Machine) (w : World) (r : BitVec 3) (v : Word)
    (cs : List Command) :
    runQuiet env d m w (.move (.reg r) v :: cs) = runQuiet env (base d) (m.setReg r v) w cs := rfl

/-! ### Non-vacuity

A session at origin x3000 with the PC at xF000: one accepted `move`, four refused commands (below
the origin; a PC offset that overflows 16 bits — xF000 + 32767 = x16FFF, which would wrap to the
user-space address x6FFF; `goto xFE00`; `break add xFFFF`), a register `move` and three
inspection commands.  The hypotheses of `session_confined` hold, and the session does what the
theorems say: exactly one memory word and one register are written. -/

def demoCmds : List Command :=
  [ .move (.mem (.address 0x3001#16)) 7#16,
    .move (.mem (.address 0x2FFF#16)) 9#16,
    .move (.mem (.pcOffset 32767)) 9#16,
    .goto (.address 0xFE00#16),
    .breakAdd (.address 0xFFFF#16),
    .move (.reg 2#3) 5#16,
    .print (.reg 2#3), .registers, .breakList ]

example : ∀ c ∈ demoCmds, Quiet c = true := by decide

/-- Head of a session, record abstracted: an accepted `move <location>`. -/
theorem head_move_mem_ok {env : Env} {d : Dbg} {m : Machine} {l : MemLoc} {a : Word}
    (h : resolveUser env (origOf d) m l = .ok a) (w : World) (v : Word) :
    ∃ d', (∀ cs, runQuiet env d m w (.move (.mem l) v :: cs) = runQuiet env d' (m.write a v) w cs) ∧
      origOf d' = origOf d ∧ d'.bps = d.bps :=
  ⟨base d, fun cs => runQuiet_move_mem_ok h v cs, rfl, rfl⟩

/-- Head of a session, record abstracted: a refused targeted command. -/
theorem head_refused {env : Env} {d : Dbg} {m : Machine} {c : Command} {l : MemLoc} {e : String}
    (hc : Targeted c l) (h : resolveUser env (origOf d) m l = .error e) (w : World) :
    ∃ d', (∀ cs, runQuiet env d m w (c :: cs) = runQuiet env d' m w cs) ∧
      origOf d' = origOf d ∧ d'.bps = d.bps :=
  ⟨say (base d) e, fun cs => runQuiet_refused hc h cs, rfl, rfl⟩

/-- Head of a session, record abstracted: `move rK`. -/
theorem head_move_reg (env : Env) (d : Dbg) (m : Machine) (w : World) (r : BitVec 3) (v : Word) :
    ∃ d', (∀ cs, runQuiet env d m w (.move (.reg r) v :: cs) = runQuiet env d' (m.setReg r v) w cs) ∧
      origOf d' = origOf d ∧ d'.bps = d.bps :=
  ⟨base d, fun _ => rfl, rfl, rfl⟩

/-- What the demo session does, for every debugger record with origin x3000 and every machine
with the PC at xF000. -/
theorem demo_session (env : Env) (d : Dbg) (m : Machine) (w : World)
    (ho : origOf d = 0x3000#16) (hp : m.pc = 0xF000#16) :
    (runQuiet env d m w demoCmds).2.1 = (m.write 0x3001#16 7#16).setReg 2#3 5#16 ∧
    (runQuiet env d m w demoCmds).1.bps = d.bps := by
  unfold demoCmds
  obtain ⟨d1, e1, o1, b1⟩ := head_move_mem_ok (d := d) (m := m) (l := .address 0x3001#16) (a := 0x3001#16)
    (by rw [ho]; rfl) w 7#16
  rw [e1]; rw [← o1] at ho; rw [← b1]; clear e1 o1 b1
  obtain ⟨d2, e2, o2, b2⟩ := head_refused (d := d1) (m := m.write 0x3001#16 7#16)
    (e := "OutOfBounds::Address") (.move (.address 0x2FFF#16) 9#16) (by rw [ho]; rfl) w
  rw [e2]; rw [← o2] at ho; rw [← b2]; clear e2 o2 b2
  obtain ⟨d3, e3, o3, b3⟩ := head_refused (d := d2) (m := m.write 0x3001#16 7#16)
    (e := "OutOfBounds::Address") (.move (.pcOffset 32767) 9#16)
    (by unfold resolveUser resolveLocation
        rw [ho, show (m.write 0x3001#16 7#16).pc = 0xF000#16 from hp]; rfl) w
  rw [e3]; rw [← o3] at ho; rw [← b3]; clear e3 o3 b3
  obtain ⟨d4, e4, o4, b4⟩ := head_refused (d := d3) (m := m.write 0x3001#16 7#16)
    (e := "OutOfBounds::Address") (.goto (.address 0xFE00#16)) (by rw [ho]; rfl) w
  rw [e4]; rw [← o4] at ho; rw [← b4]; clear e4 o4 b4
  obtain ⟨d5, e5, o5, b5⟩ := head_refused (d := d4) (m := m.write 0x3001#16 7#16)
    (e := "OutOfBounds::Address") (.breakAdd (.address 0xFFFF#16)) (by rw [ho]; rfl) w
  rw [e5]; rw [← o5] at ho; rw [← b5]; clear e5 o5 b5
  obtain ⟨d6, e6, _, b6⟩ := head_move_reg env d5 (m.write 0x3001#16 7#16) w 2#3 5#16
  rw [e6, ← b6]
  have hI : ∀ c ∈ [Command.print (.reg 2#3), .registers, .breakList], Inspect c = true := by decide
  obtain ⟨h1, _, h3⟩ := session_readonly env _ d6 ((m.write 0x3001#16 7#16).setReg 2#3 5#16) w hI
  exact ⟨h1, h3⟩

/-- The hypotheses of `demo_session` are satisfiable, and the session wrote one word and one
register: x3001 holds 7, R2 holds 5; x2FFF (below the origin) and x6FFF (where xF000 + 32767
would land after a 16-bit wrap-around) hold what they held; the PC did not move. -/
example (env : Env) (m0 m1 : Machine) (w : World) :
    let d := newDbg { m0 with pc := 0x3000#16 } [] []
    let m : Machine := { m1 with pc := 0xF000#16 }
    (runQuiet env d m w demoCmds).2.1.read 0x3001#16 = 7#16 ∧
    (runQuiet env d m w demoCmds).2.1.getReg 2#3 = 5#16 ∧
    (runQuiet env d m w demoCmds).2.1.read 0x2FFF#16 = m1.read 0x2FFF#16 ∧
    (runQuiet env d m w demoCmds).2.1.read 0x6FFF#16 = m1.read 0x6FFF#16 ∧
    (runQuiet env d m w demoCmds).2.1.pc = 0xF000#16 ∧
    (runQuiet env d m w demoCmds).1.bps = [] := by
  intro d m
  obtain ⟨h, hb⟩ := demo_session env d m w rfl rfl
  rw [h, hb]
  refine ⟨?_, ?_, ?_, ?_, rfl, rfl⟩
  · rw [Machine.read_setReg, Machine.read_write_same]
  · rw [Machine.getReg_setReg_same]
  · rw [Machine.read_setReg, Machine.read_write_ne _ _ _ _ (by decide)]; rfl
  · rw [Machine.read_setReg, Machine.read_write_ne _ _ _ _ (by decide)]; rfl

/-- `session_confined` and `actionLoop_quiet` apply to the demo session (their hypotheses hold). -/
example (env : Env) (d : Dbg) (m : Machine) (w : World) (a : Word) (ha : inUser (origOf d) a = false) :
    (runQuiet env d m w demoCmds).2.1.read a = m.read a :=
  (session_confined env d m w demoCmds (by decide)).1 a ha

example (env : Env) (m0 m : Machine) (w : World) (n : Nat) (instr : Option Sig) :
    let d := newDbg m0 [] (demoCmds ++ [.continue_])
    actionLoop env (demoCmds.length + n) d m w instr =
      actionLoop env n (setCmds [.continue_] (runQuiet env d m w demoCmds).1)
        (runQuiet env d m w demoCmds).2.1 (runQuiet env d m w demoCmds).2.2 instr :=
  (actionLoop_quiet env instr demoCmds [.continue_] n _ m w rfl rfl (by decide)).1

/-- The refused commands of the demo are refused for the reason C13 gives: the true address,
computed without wrap-around, is outside `[origin, 0xFE00)`. -/
example : ¬ InUserZ 0x3000#16 ((0xF000 : Nat) + (32767 : Int)) ∧
    inUser 0x3000#16 (BitVec.ofInt 16 ((0xF000 : Nat) + (32767 : Int))) = true := by decide

end Lace.C13
