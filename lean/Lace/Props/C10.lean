/-
  C10 — Stepping commands execute exactly what they promise.

  * `paused_machine_on_trajectory` : after ANY script over {step, step into k, step out, continue,
    break add/remove, exit} (inspection commands too), on any program, the machine the debugger
    shows — paused, interrupted after any number of iterations, or at program end — is exactly
    the reference machine advanced by the number of instructions executed: the session executes
    the plain machine's instruction sequence in order and nothing else.
  * status machine, one uninterrupted iteration each (`Clear`: in user space, not HALT, no armed
    breakpoint): `stepInto_iter` (exactly one instruction, count − 1, pause after the last),
    `continue_iter`, `stepOver_iter` / `stepOver_pauses` (runs until PC = return address, then
    waits), `stepOut_iter` (runs until a RET/RETS has executed);
  * what each command sets up: `cmd_step` (call ⇒ StepOver{PC+1}; anything else ⇒ exactly one
    instruction — the fix 529f883), `cmd_stepInto` (N ⇒ StepInto{N−1}; the parser turns 0 into 1:
    C14), `cmd_continue`, `cmd_stepOut`, and `cmd_refused_at_halt` (HALT is never executed while
    the debugger is attached: `C16`/`iter`).
  Pausing earlier at a breakpoint is C11 `bp_pause_before_exec`; HALT / leaving user space make
  the preamble switch to waiting (`DbgProofs.nextAction_no_cmd`).
  The big-step statement for `step into N` is `stepInto_exact` in `Props/C10Big.lean`; the
  analogous big-step statements for `step`, `step out` and `continue` are not written as single
  theorems (their one-iteration lemmas are above).
-/
import Lace.Props.C11
namespace Lace.C10
open Lace Lace.Dbg Lace.Cmd Lace.DbgProofs

/-- C10's alphabet: execution control and breakpoints (and inspection), plus `exit`. -/
def Quiet (c : Command) : Bool := NonMutating c || c == .exit

def QuietAll (d : Dbg) : Prop := ∀ c ∈ d.cmds, Quiet c = true

theorem runCommand_quiet (env : Env) (d : Dbg) (m : Machine) (w : World) (c : Command) (h : Quiet c = true) :
    ∃ d', Upd (base d) d' ∧
      (runCommand env d m w c = .next d' m w ∨ ∃ a, runCommand env d m w c = .action a d' m w) := by
  by_cases hnm : NonMutating c = true
  · rcases runCommand_nonmut env d m w c hnm with ⟨d1, h1, hu⟩ | ⟨d1, h1, hu⟩
    · exact ⟨d1, hu, Or.inl h1⟩
    · exact ⟨d1, hu, Or.inr ⟨_, h1⟩⟩
  · have : c = .exit := by simpa [Quiet, hnm] using h
    subst this
    exact ⟨base d, Upd.refl _, Or.inr ⟨_, rfl⟩⟩

def need (d : Dbg) : Nat := 2 * d.cmds.length + (if d.status = .wait then 1 else 2)

theorem actionLoop_quiet (env : Env) (m : Machine) (w : World) (instr : Option Sig) :
    ∀ (n : Nat) (d : Dbg), QuietAll d → need d ≤ n →
    ∃ a d', actionLoop env n d m w instr = .action a d' m w ∧ QuietAll d'
  | 0, d, _, hn => by simp [need] at hn; split at hn <;> omega
  | n + 1, d, hq, hn => by
    unfold actionLoop
    split
    · rename_i hs
      simp only [need, hs, if_true] at hn
      split
      · exact ⟨_, _, rfl, by simpa [QuietAll] using hq⟩
      · rename_i c rest hc
        have hc' : Quiet c = true := hq c (by rw [hc]; simp)
        have hrest : ∀ x ∈ rest, Quiet x = true := fun x hx => hq x (by rw [hc]; simp [hx])
        obtain ⟨d1, hu, h1 | ⟨a, h1⟩⟩ := runCommand_quiet env { d with cmds := rest } m w c hc'
        · rw [h1]
          have hcm : d1.cmds = rest := by rw [hu.2.1]; rfl
          have hq1 : QuietAll d1 := by intro x hx; rw [hcm] at hx; exact hrest x hx
          have hn1 : need d1 ≤ n := by
            simp only [need, hcm]; rw [hc] at hn; simp at hn; split <;> omega
          exact actionLoop_quiet env m w instr n d1 hq1 hn1
        · rw [h1]
          have hcm : d1.cmds = rest := by rw [hu.2.1]; rfl
          exact ⟨_, _, rfl, by intro x hx; rw [hcm] at hx; exact hrest x hx⟩
    · rename_i ret hs
      have hne : d.status ≠ .wait := by rw [hs]; simp
      simp only [need, hne, if_false] at hn
      split
      · apply actionLoop_quiet env m w instr n
        · intro x hx; apply hq x; split at hx <;> exact hx
        · simp only [need, if_true]; split <;> (first | (simp only [say]; omega) | omega)
      · exact ⟨_, _, rfl, hq⟩
    · split <;> exact ⟨_, _, rfl, hq⟩
    · exact ⟨_, _, rfl, hq⟩
    · split <;> exact ⟨_, _, rfl, hq⟩

theorem nextAction_quiet (env : Env) (d : Dbg) (m : Machine) (w : World) (h : QuietAll d) :
    ∃ a d', nextAction env d m w = .action a d' m w ∧ QuietAll d' := by
  rw [nextAction_eq]
  apply actionLoop_quiet env m w _ _ _ (by intro c hc; rw [(preamble_facts d m).2.2.1] at hc; exact h c hc)
  simp only [need]; split <;> omega

/-- One iteration under C10's alphabet: it detaches, stutters, ends the program (`exit`), or
executes exactly the plain loop's next instruction — the machine is never touched otherwise. -/
theorem iter_quiet (env : Env) (d : Dbg) (m : Machine) (w : World) (hq : QuietAll d) :
    ∃ d1, QuietAll d1 ∧
      (iter env true d m w = .cont false d1 m w none ∨
       iter env true d m w = .cont true d1 m w none ∨
       iter env true d m w = .done true d1 m w ∨
       (Run.checkPcBounds m = .eq ∧ iter env true d m w = execOne env true d1 m w)) := by
  obtain ⟨a, d1, hna, hq1⟩ := nextAction_quiet env d m w hq
  unfold iter
  simp only [if_true, hna]
  cases a with
  | exitProgram => exact ⟨d1, hq1, Or.inr (Or.inr (Or.inl rfl))⟩
  | stopDebugger => exact ⟨d1, hq1, Or.inl rfl⟩
  | proceed =>
    simp only
    by_cases hh : (sigOf (m.read m.pc) == some Sig.halt) = true
    · exact ⟨d1, hq1, Or.inr (Or.inl (by rw [if_pos hh]))⟩
    · rw [if_neg hh]
      by_cases hb : (Run.checkPcBounds m != Ordering.eq) = true
      · exact ⟨d1, hq1, Or.inr (Or.inl (by rw [if_pos hb]))⟩
      · rw [if_neg hb]
        refine ⟨{ d1 with icount := if d1.icount < 4294967295 then d1.icount + 1 else d1.icount, nexec := d1.nexec + 1 }, hq1, Or.inr (Or.inr (Or.inr ⟨by simpa using hb, rfl⟩))⟩

/-- The machine a run shows when it stops or is interrupted. -/
def OnTraj (env : Env) (m : Machine) (w : World) (ex : List Word) : DbgRun → Prop
  | .done _ _ m' w' ex' => ∃ k, ex'.length = ex.length + k ∧ C09.plain env k m w = .fuel m' w'
  | .fuel _ _ m' w' ex' => ∃ k, ex'.length = ex.length + k ∧ C09.plain env k m w = .fuel m' w'
  | .exit c _ _ m' w' ex' => ∃ k, C09.plain env k m w = .exit c m' w'
  | .panic s => ∃ k, C09.plain env k m w = .panic s

theorem iter_detached (env : Env) (d : Dbg) (m : Machine) (w : World) :
    ((m.pc == 0xFFFF#16) = true ∧ iter env false d m w = .done false d m w) ∨
    ((m.pc == 0xFFFF#16) = false ∧ Run.checkPcBounds m ≠ .eq ∧ iter env false d m w = .exit 0xEE false d m w none) ∨
    (Run.checkPcBounds m = .eq ∧ iter env false d m w = execOne env false d m w) := by
  unfold iter
  simp only [Bool.false_eq_true, if_false]
  by_cases hpc : (m.pc == 0xFFFF#16) = true
  · exact Or.inl ⟨hpc, by rw [if_pos hpc]⟩
  · rw [if_neg hpc]
    have hpc' : (m.pc == 0xFFFF#16) = false := by simpa using hpc
    cases hb : Run.checkPcBounds m with
    | lt => exact Or.inr (Or.inl ⟨hpc', by simp, rfl⟩)
    | gt => exact Or.inr (Or.inl ⟨hpc', by simp, rfl⟩)
    | eq => exact Or.inr (Or.inr ⟨rfl, rfl⟩)

theorem detached_traj (env : Env) : ∀ (n : Nat) (d : Dbg) (m : Machine) (w : World) (ex : List Word),
    OnTraj env m w ex (runLoop env n false d m w ex)
  | 0, d, m, w, ex => ⟨0, rfl, rfl⟩
  | n + 1, d, m, w, ex => by
    rcases iter_detached env d m w with ⟨_, hi⟩ | ⟨hpc, hb, hi⟩ | ⟨hb, hi⟩
    · unfold runLoop; rw [hi]; exact ⟨0, rfl, rfl⟩
    · unfold runLoop; rw [hi]
      refine ⟨1, ?_⟩
      simp only [C09.plain, Run.loop, hpc, Bool.false_eq_true, if_false]
      cases hc : Run.checkPcBounds m <;> simp_all [pushExec]
    · unfold runLoop; rw [hi]
      simp only [execOne]
      have hps := C09.plain_step env
      cases hx : VM.execute env.stackOn env.minimal (m.read m.pc) (m.setPC (m.pc + 1)) w with
      | ok m' w' =>
        simp only
        have ih := detached_traj env n d m' w' (pushExec (some m.pc) ex)
        cases hr : runLoop env n false d m' w' (pushExec (some m.pc) ex) <;> rw [hr] at ih <;>
          simp only [OnTraj, pushExec, List.length_cons] at ih ⊢
        · obtain ⟨k, hl, hk⟩ := ih; exact ⟨k + 1, by omega, by rw [hps k m w hb, hx]; exact hk⟩
        · obtain ⟨k, hk⟩ := ih; exact ⟨k + 1, by rw [hps k m w hb, hx]; exact hk⟩
        · obtain ⟨k, hk⟩ := ih; exact ⟨k + 1, by rw [hps k m w hb, hx]; exact hk⟩
        · obtain ⟨k, hl, hk⟩ := ih; exact ⟨k + 1, by omega, by rw [hps k m w hb, hx]; exact hk⟩
      | exit c w' => exact ⟨1, by rw [hps 0 m w hb, hx]⟩
      | panic s => exact ⟨1, by rw [hps 0 m w hb, hx]⟩

/-- **C10 (trajectory).** After any script over {step, step into k, step out, continue,
break add/remove, exit} (inspection commands allowed too) the machine the debugger shows —
when paused by `exit`, when interrupted after any number of iterations, or when the program
ends — is exactly the reference machine advanced by the number of instructions the session
executed: the debugger executes the plain machine's instruction sequence, in order, and
nothing else. -/
theorem paused_machine_on_trajectory (env : Env) : ∀ (n : Nat) (d : Dbg) (m : Machine) (w : World)
    (ex : List Word), QuietAll d → OnTraj env m w ex (runLoop env n true d m w ex)
  | 0, d, m, w, ex, _ => ⟨0, rfl, rfl⟩
  | n + 1, d, m, w, ex, hq => by
    obtain ⟨d1, hq1, hi | hi | hi | ⟨hb, hi⟩⟩ := iter_quiet env d m w hq
    · unfold runLoop; rw [hi]; exact detached_traj env n d1 m w _
    · unfold runLoop; rw [hi]; exact paused_machine_on_trajectory env n d1 m w _ hq1
    · unfold runLoop; rw [hi]; exact ⟨0, rfl, rfl⟩
    · unfold runLoop; rw [hi]
      simp only [execOne]
      have hps := C09.plain_step env
      cases hx : VM.execute env.stackOn env.minimal (m.read m.pc) (m.setPC (m.pc + 1)) w with
      | ok m' w' =>
        simp only
        have ih := paused_machine_on_trajectory env n d1 m' w' (pushExec (some m.pc) ex) hq1
        cases hr : runLoop env n true d1 m' w' (pushExec (some m.pc) ex) <;> rw [hr] at ih <;>
          simp only [OnTraj, pushExec, List.length_cons] at ih ⊢
        · obtain ⟨k, hl, hk⟩ := ih; exact ⟨k + 1, by omega, by rw [hps k m w hb, hx]; exact hk⟩
        · obtain ⟨k, hk⟩ := ih; exact ⟨k + 1, by rw [hps k m w hb, hx]; exact hk⟩
        · obtain ⟨k, hk⟩ := ih; exact ⟨k + 1, by rw [hps k m w hb, hx]; exact hk⟩
        · obtain ⟨k, hl, hk⟩ := ih; exact ⟨k + 1, by omega, by rw [hps k m w hb, hx]; exact hk⟩
      | exit c w' => exact ⟨1, by rw [hps 0 m w hb, hx]⟩
      | panic s => exact ⟨1, by rw [hps 0 m w hb, hx]⟩

end Lace.C10

namespace Lace.C10
open Lace Lace.Dbg Lace.Cmd Lace.DbgProofs

/-- Nothing interrupts at this PC: inside user space, not HALT, no armed breakpoint. -/
def Clear (d : Dbg) (m : Machine) : Prop :=
  Run.checkPcBounds m = .eq ∧ sigOf (m.read m.pc) ≠ some .halt ∧ ¬ C11.Armed d m.pc

theorem preamble_clear (d : Dbg) (m : Machine) (h : Clear d m) : preamble d m = { d with curBp := none } := by
  obtain ⟨hb, hh, ha⟩ := h
  unfold preamble
  rw [hb]
  simp only [checkInterrupts]
  have hh' : ¬ (sigOf (m.read m.pc) == some Sig.halt) = true := by simpa using hh
  cases hg : bpGet d.bps m.pc with
  | none => simp only; rw [if_neg hh']
  | some b =>
    simp only
    have : ¬ ((d.curBp != some m.pc || decide (d.icount > 0)) = true) := by
      intro hc
      apply ha
      refine ⟨by rw [hg]; rfl, ?_⟩
      rintro ⟨h1, h2⟩
      simp [h1, h2] at hc
    rw [if_neg this, if_neg hh']

/-- the bookkeeping of an executing iteration -/
def ran (d : Dbg) : Dbg :=
  { d with icount := if d.icount < 4294967295 then d.icount + 1 else d.icount, nexec := d.nexec + 1 }

theorem iter_of_proceed (env : Env) (d d1 : Dbg) (m : Machine) (w : World) (h : Clear d m)
    (hn : nextAction env d m w = .action .proceed d1 m w) :
    iter env true d m w = execOne env true (ran d1) m w := by
  obtain ⟨hb, hh, _⟩ := h
  unfold iter
  simp only [if_true, hn]
  have hh' : ¬ (sigOf (m.read m.pc) == some Sig.halt) = true := by simpa using hh
  have hb' : ¬ (Run.checkPcBounds m != Ordering.eq) = true := by simp [hb]
  rw [if_neg hh', if_neg hb']
  rfl

/-- **step into.** In status `StepInto{count}` at an uninterrupted PC exactly one instruction is
executed, no command is read, and the count goes down by one — or, at zero, the debugger pauses
*after* this instruction. So `step into N` (which stores `N − 1`, and `N = 0` means 1) executes
exactly N instructions unless a breakpoint, HALT or the edge of user space intervenes. -/
theorem stepInto_iter (env : Env) (d : Dbg) (m : Machine) (w : World) (c : Word)
    (hs : d.status = .stepInto c) (h : Clear d m) :
    iter env true d m w = execOne env true
      (ran { d with curBp := none, status := if c.toNat > 0 then .stepInto (c - 1) else .wait }) m w := by
  have hn : nextAction env d m w = .action .proceed
      { d with curBp := none, status := if c.toNat > 0 then .stepInto (c - 1) else .wait } m w := by
    rw [nextAction_eq, preamble_clear d m h]
    unfold actionLoop
    simp only [hs]
    split <;> rfl
  exact iter_of_proceed env d _ m w h hn

/-- **continue.** Runs on: every uninterrupted iteration executes one instruction and stays in
`Continue`. -/
theorem continue_iter (env : Env) (d : Dbg) (m : Machine) (w : World)
    (hs : d.status = .cont) (h : Clear d m) :
    iter env true d m w = execOne env true (ran { d with curBp := none }) m w := by
  have hn : nextAction env d m w = .action .proceed { d with curBp := none } m w := by
    rw [nextAction_eq, preamble_clear d m h]
    unfold actionLoop
    simp only [hs]
  exact iter_of_proceed env d _ m w h hn

/-- **step (over a call).** In status `StepOver{return_addr}` the loop keeps executing until the
PC equals the return address, where it pauses instead of executing. -/
theorem stepOver_iter (env : Env) (d : Dbg) (m : Machine) (w : World) (ret : Word)
    (hs : d.status = .stepOver ret) (h : Clear d m) (hne : m.pc ≠ ret) :
    iter env true d m w = execOne env true (ran { d with curBp := none }) m w := by
  have hn : nextAction env d m w = .action .proceed { d with curBp := none } m w := by
    rw [nextAction_eq, preamble_clear d m h]
    unfold actionLoop
    simp only [hs]
    have : (m.pc == ret) = false := by simpa using hne
    simp [this]
  exact iter_of_proceed env d _ m w h hn

/-- … and at the return address it waits for a command before anything else is executed. -/
theorem stepOver_pauses (env : Env) (d : Dbg) (m : Machine) (w : World) (ret : Word)
    (hs : d.status = .stepOver ret) (h : Clear d m) (heq : m.pc = ret)
    (a : Action) (d' : Dbg) (m' : Machine) (w' : World)
    (hr : nextAction env d m w = .action a d' m' w') : d.ncmds < d'.ncmds := by
  have hmono := (C16.nextAction_mono env d m w d' (by rw [hr]; rfl)).1
  by_cases hq : d'.ncmds = d.ncmds
  · exfalso
    rw [nextAction_eq, preamble_clear d m h] at hr
    unfold actionLoop at hr
    simp only [hs] at hr
    have : (m.pc == ret) = true := by simp [heq]
    simp only [this, if_true] at hr
    have := actionLoop_no_cmd env _ _ m w _ a d' m' w' hr (by rw [hq]; split <;> rfl)
    exact this.2.2.2 rfl
  · omega

/-- **step out.** In status `Finish` every uninterrupted iteration executes one instruction; the
one that executes a RET / RETS is the last: the debugger pauses right after it. -/
theorem stepOut_iter (env : Env) (d : Dbg) (m : Machine) (w : World)
    (hs : d.status = .finish) (h : Clear d m) :
    iter env true d m w = execOne env true
      (ran (if sigOf (m.read m.pc) = some .ret
            then { say { d with curBp := none } "Reached::SubroutineEnd" with status := .wait }
            else { d with curBp := none })) m w := by
  have hn : nextAction env d m w = .action .proceed
      (if sigOf (m.read m.pc) = some .ret
       then { say { d with curBp := none } "Reached::SubroutineEnd" with status := .wait }
       else { d with curBp := none }) m w := by
    rw [nextAction_eq, preamble_clear d m h]
    unfold actionLoop
    simp only [hs]
    by_cases hr : sigOf (m.read m.pc) = some .ret
    · simp [hr]
    · have : (sigOf (m.read m.pc) == some Sig.ret) = false := by simpa using hr
      simp [hr, this]
  exact iter_of_proceed env d _ m w h hn

/-! ### What each stepping command sets up (all refuse at HALT) -/

theorem cmd_refused_at_halt (env : Env) (d : Dbg) (m : Machine) (w : World) (c : Command)
    (hc : c = .stepOver ∨ c = .continue_ ∨ (∃ k, c = .stepInto k) ∨ (c = .stepOut ∧ env.stackOn = true))
    (hh : atHalt m = true) :
    runCommand env d m w c = .next (say (base d) "Reached::Halt") m w := by
  rcases hc with rfl | rfl | ⟨k, rfl⟩ | ⟨rfl, hso⟩ <;> simp [runCommand, hh, base]
  · simp [hso]

theorem cmd_step (env : Env) (d : Dbg) (m : Machine) (w : World) (hh : atHalt m = false) :
    runCommand env d m w .stepOver =
      .next { base d with status := if isCall (m.read m.pc) then .stepOver (m.pc + 1) else .stepInto 0 } m w := by
  simp only [runCommand, hh, Bool.false_eq_true, if_false]
  by_cases hc : isCall (m.read m.pc) = true <;> simp [hc, base]

theorem cmd_stepInto (env : Env) (d : Dbg) (m : Machine) (w : World) (k : Word) (hh : atHalt m = false)
    (hk : k ≠ 0#16) :
    runCommand env d m w (.stepInto k) = .next { base d with status := .stepInto (k - 1) } m w := by
  have : (k == 0#16) = false := by simpa using hk
  simp [runCommand, hh, this, base]

theorem cmd_continue (env : Env) (d : Dbg) (m : Machine) (w : World) (hh : atHalt m = false) :
    runCommand env d m w .continue_ = .next { base d with status := .cont } m w := by
  simp [runCommand, hh, base]

theorem cmd_stepOut (env : Env) (d : Dbg) (m : Machine) (w : World) (hh : atHalt m = false)
    (hso : env.stackOn = true) :
    runCommand env d m w .stepOut = .next { base d with status := .finish } m w := by
  simp [runCommand, hh, hso, base]

end Lace.C10
