/-
  C05 — The assembler is total: any text yields an image or a diagnostic.

  The model (`Lace/Model/{Text,Symbol,Lexer,Air,Parser,Assemble}.lean`) mirrors lace's assembler
  with every Rust panic site as an explicit `panic` outcome.  The theorems below are about that
  model *as fixed* (D3–D7 of DESIGN.md §5 were panics of the original code; the fixes are in
  lace's history and the witnesses stay in the harness corpus).

  * `assemble_no_panic`  — for every feature setting, symbol table and text the outcome is an
    image or a diagnostic, never a panic.  Running out of loop fuel is modelled as a panic too, so
    this also says that `length src + 1` lexer steps and `#tokens + 1` parser iterations always
    suffice.
  * `diag_points_inside` — a diagnostic that carries a label points inside the source.
  * `assemble_terminates` — termination is Lean's own totality check: `assemble` is a total
    function defined by structural recursion (on the fuel and on lists); the statement recorded
    here is the fuel bound made explicit: every lexer step on a non-empty input consumes at least
    one character (`token_progress`).
-/
import Lace.Model.Assemble
import Lace.Proofs.AsmParse
namespace Lace.C05
open Lace.Asm

/-- The assembler never panics (overflow, slicing inside a character, `unreachable!`, failed
assertion, unfilled label, exhausted fuel), whatever the text, the stack flag and the symbol
table left behind by earlier assemblies. -/
theorem assemble_no_panic (flag : Bool) (tbl : SymTab) (src : List Char) (site : String) :
    (assemble flag tbl src).1 ≠ .panic site := by
  have hp := parse_ok flag tbl src
  unfold assemble assembleWith
  generalize parse (some flag) tbl src = r at hp ⊢
  obtain ⟨r, tbl'⟩ := r
  cases r with
  | panic s => exact hp.elim
  | diag k s => simp
  | ok air =>
    simp only []
    split
    · simp
    · rename_i stmts hb
      rcases emitAll_ok stmts [] (backpatchAll_resolved hb) with ⟨ws, h⟩ | ⟨k, h⟩ <;> rw [h] <;> simp

/-- A diagnostic with a label points inside the source: offset + length ≤ length of the text in
bytes. -/
theorem diag_points_inside (flag : Bool) (tbl : SymTab) (src : List Char) (k : DiagKind) (o l : Nat)
    (h : (assemble flag tbl src).1 = .diag k (some (o, l))) : o + l ≤ utf8Len src := by
  have hp := parse_ok flag tbl src
  unfold assemble assembleWith at h
  generalize parse (some flag) tbl src = r at hp h
  obtain ⟨r, tbl'⟩ := r
  cases r with
  | panic s => exact hp.elim
  | diag k' s =>
    simp only [Outcome.diag.injEq] at h
    obtain ⟨rfl, rfl⟩ := h
    exact hp
  | ok air =>
    simp only [] at h
    split at h
    · simp at h
    · rename_i stmts hb
      rcases emitAll_ok stmts [] (backpatchAll_resolved hb) with ⟨ws, he⟩ | ⟨k2, he⟩ <;>
        rw [he] at h <;> simp at h

/-- Every lexer step on a non-empty rest either fails or returns a strictly shorter rest: the
token count is bounded by the length of the text (`token_count_le_len`), which is why the fuel
`length src + 1` of `preprocess` is never exhausted. -/
theorem token_progress (flag : Bool) (pos : Nat) (rest : List Char) (t : Token) (pos' : Nat)
    (rest' : List Char) (h : advanceToken (some flag) pos rest = .tok t pos' rest') :
    t.kind = .eof ∨ rest'.length < rest.length := by
  have := advanceToken_ok flag pos rest
  rw [h] at this
  exact this.2.2.1

/-- Termination: `assemble` is a total Lean function (structural recursion only — accepted by
Lean's termination checker without `partial`/`unsafe`), so it returns an outcome for every
input; with `assemble_no_panic` that outcome is an image or a diagnostic. -/
theorem assemble_terminates (flag : Bool) (tbl : SymTab) (src : List Char) :
    (∃ img, (assemble flag tbl src).1 = .ok img) ∨ (∃ k s, (assemble flag tbl src).1 = .diag k s) := by
  cases h : (assemble flag tbl src).1 with
  | ok img => exact Or.inl ⟨img, rfl⟩
  | diag k s => exact Or.inr ⟨k, s, rfl⟩
  | panic s => exact absurd h (assemble_no_panic flag tbl src s)

/-! Non-vacuity: the outcomes the theorems speak about all occur (evaluated by the kernel). -/

/-- `xé` (a witness of D5) is a label followed by the end of input: an `eof` diagnostic whose
label lies inside the three-byte text. -/
example : (assemble true [] ['x', 'é']).1 = .diag .eof (some (2, 0)) := by decide

/-- `r1` alone is an unexpected token at bytes 0..2. -/
example : (assemble false [] "r1".toList).1 = .diag .unexpected (some (0, 2)) := by decide

end Lace.C05
