/-
  C05 — the assembler is total (placeholder: theorems follow).
-/
import Lace.Model.Assemble
namespace Lace.C05
open Lace.Asm
end Lace.C05
