/-
  C06 — `lace run` on an object file: the step budget of the process model is only a budget.

  `Cli.runObjFile` / `Cli.runAssembled` model the whole process (`Assembling …`, load, run,
  `Completed …`, exit status) and pass a step budget to `Run.loop`.  With `loop_fuel_mono` (C03):
  a process that finished or panicked under one budget finishes with the same exit status and the
  same standard output under every larger budget; so `run_obj_eq_run_src`, stated for every
  budget, compares the two unbounded processes.

  * `runLoaded_fuel_mono`, `runObjFile_fuel_mono`, `runAssembled_fuel_mono`.
-/
import Lace.Model.Cli
import Lace.Props.C03Fuel
namespace Lace.C06
open Lace Cli

/-- The process came to an end (finished with a status, or panicked). -/
def ProcEnded : Proc → Prop
  | .fuel => False
  | _ => True

theorem runLoaded_fuel_mono (so mi : Bool) (f k : Nat) (name : List Char) (m : Machine) (w : World)
    (h : ProcEnded (runLoaded so mi f name m w)) :
    runLoaded so mi (f + k) name m w = runLoaded so mi f name m w := by
  unfold runLoaded at h ⊢
  simp only at h ⊢
  generalize withOut w (message "Running".toList "emitted binary".toList) = w0 at h ⊢
  have hs : C03.Stopped (Run.loop so mi f m w0) := by
    cases hr : Run.loop so mi f m w0 <;> simp only [hr] at h <;> simp [C03.Stopped]
    simp [ProcEnded] at h
  rw [C03.loop_fuel_mono so mi k f m w0 hs]

theorem runObjFile_fuel_mono (so mi : Bool) (f k : Nat) (name : List Char) (bytes inp : List Nat)
    (h : ProcEnded (runObjFile so mi f name bytes inp)) :
    runObjFile so mi (f + k) name bytes inp = runObjFile so mi f name bytes inp := by
  unfold runObjFile at h ⊢
  simp only at h ⊢
  split
  · rfl
  · rename_i hb
    simp only [hb] at h
    cases hl : Run.fromRaw (wordsOfBytes bytes) <;> simp only [hl] at h ⊢
    exact runLoaded_fuel_mono so mi f k name _ _ (by simpa using h)

theorem runAssembled_fuel_mono (so mi : Bool) (f k : Nat) (name : List Char) (orig : Option Word)
    (words : List Word) (inp : List Nat) (h : ProcEnded (runAssembled so mi f name orig words inp)) :
    runAssembled so mi (f + k) name orig words inp = runAssembled so mi f name orig words inp := by
  unfold runAssembled at h ⊢
  simp only at h ⊢
  cases hl : Run.fromRaw (orig.getD 0x3000#16 :: words) <;> simp only [hl] at h ⊢
  exact runLoaded_fuel_mono so mi f k name _ _ h

/-- Non-vacuity: an odd-sized file is refused under every budget. -/
example (so mi : Bool) (f : Nat) : ProcEnded (runObjFile so mi f [] [0] []) := by
  simp [runObjFile, ProcEnded]

end Lace.C06
