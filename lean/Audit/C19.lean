import Lace.Props.C19
#print axioms Lace.C19.reset_eq_empty
#print axioms Lace.C19.assemble_after_reset
#print axioms Lace.C19.assemble_deterministic
#print axioms Lace.C19.runSeq_reset_eq_map
#print axioms Lace.C19.watch_recheck_eq_check
#print axioms Lace.C19.stale_table_matters
#print axioms Lace.C19.watch_session_eq_checks
