import Lace.Props.C17
#print axioms Lace.C17.span_starts_at_statement_token
#print axioms Lace.C17.span_covers_operands_holds
#print axioms Lace.C17.multiword_share_span_holds
#print axioms Lace.C17.span_inside_source_holds
#print axioms Lace.C17.show_single_line_no_panic
#print axioms Lace.C17.span_text_eq_statement_partial
#print axioms Lace.C17.no_statement_no_text
#print axioms Lace.C17.statement_text
#print axioms Lace.C17.label_resolves
#print axioms Lace.C17.label_out_of_range
#print axioms Lace.C17.unknown_label
