import Lace.Props.C17
import Lace.Props.C17Text
#print axioms Lace.C17.span_starts_at_statement_token
#print axioms Lace.C17.span_covers_operands_holds
#print axioms Lace.C17.multiword_share_span_holds
#print axioms Lace.C17.span_inside_source_holds
#print axioms Lace.C17.show_single_line_no_panic
#print axioms Lace.C17.span_text_eq_statement_partial
#print axioms Lace.C17.no_statement_no_text
#print axioms Lace.C17.statement_text
#print axioms Lace.C17.label_resolves
#print axioms Lace.C17.label_out_of_range
#print axioms Lace.C17.unknown_label
#print axioms Lace.C01.parseHead_te
#print axioms Lace.C01.parse_items_spans
#print axioms Lace.C01.parse_tokens_spans
#print axioms Lace.C01.preprocess_textRel_spans
#print axioms Lace.C01.textRel_render
#print axioms Lace.C01.itemsSpansOf_ESpans
#print axioms Lace.C01.slice_itemsStmtSpans
#print axioms Lace.C17.spans_render
#print axioms Lace.C17.span_text_eq_statement_render
#print axioms Lace.C17.span_text_eq_statement_index
#print axioms Lace.C17.spans_length_render
#print axioms Lace.C17.stmtText_render
#print axioms Lace.C17.assembly_shows_statement_text
#print axioms Lace.C17.span_text_eq_statement_wf
#print axioms Lace.C17.span_text_eq_statement_text_holds
