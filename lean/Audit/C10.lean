import Lace.Props.C10
import Lace.Props.C10Big
#print axioms Lace.C10.paused_machine_on_trajectory
#print axioms Lace.C10.stepInto_iter
#print axioms Lace.C10.continue_iter
#print axioms Lace.C10.stepOver_iter
#print axioms Lace.C10.stepOver_pauses
#print axioms Lace.C10.stepOut_iter
#print axioms Lace.C10.cmd_step
#print axioms Lace.C10.cmd_stepInto
#print axioms Lace.C10.cmd_refused_at_halt
#print axioms Lace.C10.stepInto_exact
#print axioms Lace.C10.run_exact
#print axioms Lace.C10.continue_exact
#print axioms Lace.C10.stepOver_exact
#print axioms Lace.C10.stepOut_exact
