import Lace.Props.C10
import Lace.Props.C10Big
import Lace.Props.C10Ref
import Lace.Props.C10Fuel
#print axioms Lace.C10.paused_machine_on_trajectory
#print axioms Lace.C10.stepInto_iter
#print axioms Lace.C10.continue_iter
#print axioms Lace.C10.stepOver_iter
#print axioms Lace.C10.stepOver_pauses
#print axioms Lace.C10.stepOut_iter
#print axioms Lace.C10.cmd_step
#print axioms Lace.C10.cmd_stepInto
#print axioms Lace.C10.cmd_refused_at_halt
#print axioms Lace.C10.stepInto_exact
#print axioms Lace.C10.run_exact
#print axioms Lace.C10.continue_exact
#print axioms Lace.C10.stepOver_exact
#print axioms Lace.C10.stepOut_exact
#print axioms Lace.C10.stepping_refines_reference
#print axioms Lace.C10.stepping_refines_reference_done
#print axioms Lace.C10.reference_refines_stepping
#print axioms Lace.C10.reference_fuel_refines_stepping
#print axioms Lace.C10.stepping_fuel_prefix
#print axioms Lace.C10.session_sim
#print axioms Lace.C10.cmd_sim
#print axioms Lace.C10.single_command
#print axioms Lace.C10.step_into_exact_with_breakpoints
#print axioms Lace.C10.step_over_call_pauses_at_return
#print axioms Lace.C10.step_out_stops_after_ret
#print axioms Lace.C10.step_out_without_stack
#print axioms Lace.C10.continue_stops_only_at_interrupt
#print axioms Lace.RefDebugProofs.run_sim
#print axioms Lace.RefDebugProofs.classOk_all
#print axioms Lace.RefDebugProofs.runObs_fst
#print axioms Lace.C10.runUntil_paused
#print axioms Lace.C10.runUntil_count_le
#print axioms Lace.C10.resume_paused
#print axioms Lace.C10.runUntil_fuel_mono
#print axioms Lace.C10.resume_fuel_mono
#print axioms Lace.C10.cmd_fuel_mono
#print axioms Lace.C10.cmd_fuel_agree
#print axioms Lace.C10.script_fuel_mono
