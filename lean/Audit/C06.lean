import Lace.Props.C06
import Lace.Props.C06Fuel
#print axioms Lace.C06.obj_length
#print axioms Lace.C06.words_of_obj
#print axioms Lace.C06.run_obj_eq_run_src
#print axioms Lace.C06.loader_accepts_iff
#print axioms Lace.C06.loader_never_panics
#print axioms Lace.C03.load_spec
#print axioms Lace.C06.runLoaded_fuel_mono
#print axioms Lace.C06.runObjFile_fuel_mono
#print axioms Lace.C06.runAssembled_fuel_mono
