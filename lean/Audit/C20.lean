import Lace.Props.C20
#print axioms Lace.C20.editor_no_panic
#print axioms Lace.C20.cursor_in_bounds
#print axioms Lace.C20.submit_eq_reference
#print axioms Lace.C20.commands_eq_split
#print axioms Lace.C20.key_step
#print axioms Lace.C20.session_inv
#print axioms Lace.C20.submitted_not_blank
#print axioms Lace.Editor.handleKey_sim
#print axioms Lace.Editor.findWordNext_eq
#print axioms Lace.Editor.findWordBack_eq
#print axioms Lace.Editor.insertCharIndex_eq
#print axioms Lace.Editor.removeCharIndex_eq
