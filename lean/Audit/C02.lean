import Lace.Props.C02
#print axioms Lace.C02.execute_eq_isa
#print axioms Lace.C02.exec_frame
#print axioms Lace.C02.exec_frame_regs
#print axioms Lace.C02.exec_frame_mem
#print axioms Lace.C02.execute_frame
#print axioms Lace.C02.unknown_trap_stops
#print axioms Lace.C02.stack_off_stops
#print axioms Lace.C02.execute_no_panic
#print axioms Lace.regfield_lt
