import Lace.Props.C15
#print axioms Lace.C15.eval_eq_isa_abs
#print axioms Lace.C15.eval_text_eq_spec
#print axioms Lace.C15.eval_ld_label
#print axioms Lace.C15.eval_st_label
#print axioms Lace.C15.eval_pc_only_jumps_partial
#print axioms Lace.C15.refused_noop
#print axioms Lace.C15.eval_refusals_noop
#print axioms Lace.C15.eval_never_ends_session_partial
#print axioms Lace.C15.eval_pc_only_jumps_holds
#print axioms Lace.C15.eval_never_ends_session_holds
#print axioms Lace.C15.parseSimple_no_panic_holds
#print axioms Lace.C15.parseSimple_diag_inside
#print axioms Lace.C15.eval_text_total
