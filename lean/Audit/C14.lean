import Lace.Props.C14
#print axioms Lace.C14.parse_integer_eq_grammar
#print axioms Lace.C14.parse_command_eq_grammar
#print axioms Lace.C14.parse_no_panic
#print axioms Lace.C14.reader_lines_valid
#print axioms Lace.C14.session_no_panic
#print axioms Lace.C14.split_argument_eq_split_stdin
#print axioms Lace.C14.read_no_panic
#print axioms Lace.C14.session_eq_lines
#print axioms Lace.C14.transport_independent
#print axioms Lace.C14.transport_independent_semicolon
#print axioms Lace.C14.transport_independent_argument_only
#print axioms Lace.C14.separators_equivalent
#print axioms Lace.C14.swapSeparators_ok
#print axioms Lace.C14.commandTable_unambiguous
#print axioms Lace.C14.parse_offsets_in_range
#print axioms Lace.C14.session_eq_script
