import Lace.Props.C14
#print axioms Lace.C14.parse_integer_eq_grammar
