import Lace.Props.C13
import Lace.Props.C13Session
#print axioms Lace.C13.move_reg_frame
#print axioms Lace.C13.move_mem_frame
#print axioms Lace.C13.resolveUser_spec
#print axioms Lace.C13.oob_refused
#print axioms Lace.C13.inspect_readonly
#print axioms Lace.C13.quiet_step
#print axioms Lace.C13.quiet_next
#print axioms Lace.C13.session_frame
#print axioms Lace.C13.session_mem_changed
#print axioms Lace.C13.session_reg_changed
#print axioms Lace.C13.session_pc_changed
#print axioms Lace.C13.session_pc_inUser
#print axioms Lace.C13.session_bps_changed
#print axioms Lace.C13.session_confined
#print axioms Lace.C13.session_readonly
#print axioms Lace.C13.runCommand_setCmds
#print axioms Lace.C13.actionLoop_quiet
#print axioms Lace.C13.demo_session
