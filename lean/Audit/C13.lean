import Lace.Props.C13
#print axioms Lace.C13.move_reg_frame
#print axioms Lace.C13.move_mem_frame
#print axioms Lace.C13.resolveUser_spec
#print axioms Lace.C13.oob_refused
#print axioms Lace.C13.inspect_readonly
