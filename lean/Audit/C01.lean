import Lace.Props.C01
#print axioms Lace.C01.emit_eq_encode_holds
#print axioms Lace.C01.bitOffs_eq_pcField
#print axioms Lace.C01.emitAll_eq_specWords
#print axioms Lace.C01.parse_numbered
#print axioms Lace.C01.image_eq_spec
#print axioms Lace.C01.image_word
#print axioms Lace.C01.image_depends_on_labels_only
#print axioms Lace.C01.layout_irrelevant_of_assemble_image
#print axioms Lace.C01.parse_stmt_tokens
#print axioms Lace.C01.airOf_words
#print axioms Lace.C01.stmt_tokens_to_spec
