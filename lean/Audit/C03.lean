import Lace.Props.C03
#print axioms Lace.C03.load_spec
#print axioms Lace.C03.run_eq_ref
#print axioms Lace.C03.fetch_in_bounds
#print axioms Lace.C03.run_panic_only_rti
#print axioms Lace.C02.execute_eq_isa
