import Lace.Props.C03
import Lace.Props.C03Term
import Lace.Props.C03TermRun
import Lace.Props.C03Fuel
import Lace.Props.C03TermFuel
#print axioms Lace.C03.load_spec
#print axioms Lace.C03.run_eq_ref
#print axioms Lace.C03.fetch_in_bounds
#print axioms Lace.C03.run_panic_only_rti
#print axioms Lace.C02.execute_eq_isa
#print axioms Lace.C03.terminal_key_consumes_n_reads
#print axioms Lace.C03.terminal_reads_eq_pipe_reads
#print axioms Lace.C03.typed_reads_eq_pipe_reads
#print axioms Lace.C03.counter_bounded
#print axioms Lace.C03.ignored_event_consumes_nothing
#print axioms Lace.C03.buffered_read_consumes_no_event
#print axioms Lace.C03.nul_yields_zero
#print axioms Lace.C03.enter_yields_newline
#print axioms Lace.C03.ctrl_c_exits
#print axioms Lace.C03.terminal_read_no_panic
#print axioms Lace.C03.readCharLoop_eq_readKey
#print axioms Lace.C03.delivers_eq
#print axioms Lace.C03.isCtrlC_iff
#print axioms Lace.C03.execute_inp_frame
#print axioms Lace.C03.terminal_run_eq_pipe_run
#print axioms Lace.C03.terminal_process_eq_pipe_process
#print axioms Lace.C03.typed_process_eq_pipe_process
#print axioms Lace.C03.loop_fuel_mono
#print axioms Lace.C03.loop_fuel_agree
#print axioms Lace.C03.fetches_fuel_mono
#print axioms Lace.C03.ref_run_fuel_mono
#print axioms Lace.C03.term_loop_fuel_mono
#print axioms Lace.C03.loop_fuel_split
#print axioms Lace.C03.ref_run_fuel_split
