import Lace.Props.C18
import Lace.Props.C18Obj
#print axioms Lace.C18.flag_dichotomy
#print axioms Lace.C18.flag_off_rejects
#print axioms Lace.C18.flag_off_diag_inside
#print axioms Lace.C18.flag_irrelevant_asm
#print axioms Lace.C18.flag_irrelevant_text
#print axioms Lace.C18.flag_off_rejects_iff
#print axioms Lace.C18.flag_irrelevant_vm
#print axioms Lace.C18.flag_off_opD_exit1
#print axioms Lace.C18.flag_on_executes
#print axioms Lace.C18.flag_matters_on_opD
#print axioms Lace.C18.flag_irrelevant_run
#print axioms Lace.C18.flag_off_run_opD_exit1
#print axioms Lace.C18.flag_on_run_eq_ref
#print axioms Lace.C18.fetched_words_per_fetch
#print axioms Lace.C18.features_from_str_spec
#print axioms Lace.C18.features_from_str_err
#print axioms Lace.C18.split_comma_spec
#print axioms Lace.C18.flag_irrelevant_cli
#print axioms Lace.C18.flag_off_cli_rejects
#print axioms Lace.C18.flag_position_irrelevant
#print axioms Lace.C02.execute_eq_isa
#print axioms Lace.C02.stack_off_stops
#print axioms Lace.C18.obj_flag_irrelevant
#print axioms Lace.C18.obj_flag_off_opD_exit1
#print axioms Lace.C18.obj_flag_position_irrelevant
#print axioms Lace.C18.obj_bad_option_exit2
