import Lace.Props.C09
import Lace.Props.C09IO
#print axioms Lace.C09.debug_transparent
#print axioms Lace.C09.iter_nonmut
#print axioms Lace.C09.detached_eq_plain
#print axioms Lace.C09.nextAction_nonmut
#print axioms Lace.DbgProofs.runCommand_nonmut
#print axioms Lace.C09IO.reader_consumes_exactly
#print axioms Lace.C09IO.fetch_consumes_exactly
#print axioms Lace.C09IO.fetch_rest_suffix
#print axioms Lace.C09IO.quit_hands_over_stdin
#print axioms Lace.C09IO.preparsed_agrees
#print axioms Lace.C09IO.preparsed_agrees_argument
#print axioms Lace.C09IO.debug_transparent_io
#print axioms Lace.C09IO.transport_independent_io
#print axioms Lace.C09IO.runLoop_sync
#print axioms Lace.C09IO.runCommand_frame
#print axioms Lace.C09IO.execute_setInp
#print axioms Lace.C09IO.readFromLoop_tview
