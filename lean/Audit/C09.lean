import Lace.Props.C09
#print axioms Lace.C09.debug_transparent
#print axioms Lace.C09.iter_nonmut
#print axioms Lace.C09.detached_eq_plain
#print axioms Lace.C09.nextAction_nonmut
#print axioms Lace.DbgProofs.runCommand_nonmut
