import Lace.Props.C11
import Lace.Props.C11Trace
import Lace.Props.C11Demo
import Lace.Props.C11Text
#print axioms Lace.C11.bp_sorted_nodup
#print axioms Lace.C11.bp_pause_before_exec
#print axioms Lace.C11.exec_rearms
#print axioms Lace.C11.no_bp_no_pause
#print axioms Lace.C11.runCommand_bps
#print axioms Lace.C11.armed_iteration_reads
#print axioms Lace.C11.bp_pause_before_exec_trace
#print axioms Lace.C11.bp_pause_before_exec_from
#print axioms Lace.C11.iter_bp_exec_reads
#print axioms Lace.C11.iter_fresh
#print axioms Lace.C11.bp_removed_never_pauses_trace
#print axioms Lace.C11.bp_line_only_at_breakpoint_trace
#print axioms Lace.C11.no_bp_runs_on_trace
#print axioms Lace.C11.bp_exec_preceded_by_resume
#print axioms Lace.C11.bp_fires_every_arrival
#print axioms Lace.C11.break_directive_addresses
#print axioms Lace.C11.break_directive_addresses_src
#print axioms Lace.C11.parse_breaks
#print axioms Lace.C11.assemble_breaks
#print axioms Lace.C11.runLoop_execs_eq_trace
#print axioms Lace.C11.nextReads_length
#print axioms Lace.C11.breaks_render
#print axioms Lace.C11.debugger_breakpoints_render
#print axioms Lace.C11.break_marks_next_statement
#print axioms Lace.C11.break_trailing
#print axioms Lace.C11.break_occupies_no_memory
#print axioms Lace.C11.break_occupies_no_memory_render
#print axioms Lace.C11.mem_breaks_iff
#print axioms Lace.C11.breaks_incr
#print axioms Lace.C11.parse_tokens_breaks
#print axioms Lace.C11.parse_items_breaks
