import Lace.Props.C11
#print axioms Lace.C11.bp_sorted_nodup
#print axioms Lace.C11.bp_pause_before_exec
#print axioms Lace.C11.exec_rearms
#print axioms Lace.C11.no_bp_no_pause
#print axioms Lace.C11.runCommand_bps
#print axioms Lace.C11.armed_iteration_reads
