import Lace.Props.C07
import Lace.Props.C05
#print axioms Lace.C07.check_ok_imp_compile_ok
#print axioms Lace.C07.compile_err_imp_check_err_and_run_err
#print axioms Lace.C07.check_compile_run_agree
#print axioms Lace.C07.emission_error_fails_check
#print axioms Lace.C05.assemble_no_panic
