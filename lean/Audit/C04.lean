import Lace.Props.C04
#print axioms Lace.C01.emit_ok_iff_fits_holds
#print axioms Lace.C04.lit_range_iff
#print axioms Lace.C04.expectLit_lit
#print axioms Lace.C04.accept_iff_fits
#print axioms Lace.C04.no_truncation
#print axioms Lace.C04.reject_is_diag
#print axioms Lace.C04.dup_label_rejected
#print axioms Lace.C04.undefined_label_rejected
#print axioms Lace.C04.second_orig_rejected
#print axioms Lace.C01.parse_tokens_ok_image
#print axioms Lace.C04.accept_render_image
#print axioms Lace.C04.accept_iff_wf_render
#print axioms Lace.C04.reject_render
