import Lace.Props.C05
