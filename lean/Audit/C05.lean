import Lace.Props.C05
#print axioms Lace.C05.assemble_no_panic
#print axioms Lace.C05.diag_points_inside
#print axioms Lace.C05.token_progress
#print axioms Lace.C05.assemble_terminates
