import Lace.Props.C18Asm
#print axioms Lace.C18.flag_dichotomy
#print axioms Lace.C18.flag_off_rejects
#print axioms Lace.C18.flag_off_diag_inside
#print axioms Lace.C18.flag_irrelevant_asm
#print axioms Lace.C18.flag_irrelevant_partial
