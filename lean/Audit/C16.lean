import Lace.Props.C16
import Lace.Props.C16Term
import Lace.Props.C16Fuel
#print axioms Lace.C16.no_spin
#print axioms Lace.C16.iter_mono
#print axioms Lace.C16.work_bound
#print axioms Lace.DbgProofs.nextAction_no_cmd
#print axioms Lace.C16.reads_bounded
#print axioms Lace.C16.session_work_bound
#print axioms Lace.C16.session_terminates
#print axioms Lace.C16.runLoop_fuel_mono
#print axioms Lace.C16.runLoop_fuel_agree
#print axioms Lace.C16.session_outcome_unique
