import Lace.Props.C16
#print axioms Lace.C16.no_spin
#print axioms Lace.C16.iter_mono
#print axioms Lace.C16.work_bound
#print axioms Lace.DbgProofs.nextAction_no_cmd
