import Lace.Props.C12
#print axioms Lace.C12.initial_never_mutated
#print axioms Lace.C12.reset_restores
#print axioms Lace.C12.reset_then_run_eq_fresh_run
#print axioms Lace.C12.iter_initial
