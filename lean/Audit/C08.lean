import Lace.Props.C08
import Lace.Props.C08Paths
#print axioms Lace.C08.compile_all_or_nothing
#print axioms Lace.C08.compile_fail_at
#print axioms Lace.C08.compile_unwritable
#print axioms Lace.C08.emitAll_fail_at
#print axioms Lace.C08.compile_all_or_nothing_faults
#print axioms Lace.C08.writeAllOrNothing_spec
#print axioms Lace.C08.compile_write_fails_at
#print axioms Lace.C08.in_place_truncates
#print axioms Lace.C08.compileP_all_or_nothing
#print axioms Lace.C08.no_stray_entries
#print axioms Lace.C08.no_new_names
#print axioms Lace.C08.hard_link_other_name_unchanged
#print axioms Lace.C08.old_inodes_unchanged
#print axioms Lace.C08.live_link_preserved
#print axioms Lace.C08.dangling_link_replaced
#print axioms Lace.C08.dest_location_regular_file
#print axioms Lace.C08.compileP_refines_compileFs
#print axioms Lace.C08.compileP_name_refines_compileFs
#print axioms Lace.C08.writeAllOrNothingP_spec
#print axioms Lace.C08.compileP_spec
#print axioms Lace.C08.Shape.ofPlainDir
#print axioms Lace.C08.stale_tmp_link_truncates
#print axioms Lace.C08.symlink_depth_counterexample
