import Lace.Props.C08
#print axioms Lace.C08.compile_all_or_nothing
#print axioms Lace.C08.compile_fail_at
#print axioms Lace.C08.compile_unwritable
#print axioms Lace.C08.emitAll_fail_at
#print axioms Lace.C08.compile_all_or_nothing_faults
#print axioms Lace.C08.writeAllOrNothing_spec
#print axioms Lace.C08.compile_write_fails_at
#print axioms Lace.C08.in_place_truncates
