-- Root of the `Lace` library: specification, model and theorems.
import Lace.Basic.Machine
import Lace.Basic.Fmt
import Lace.Spec.ISA
import Lace.Model.VM
import Lace.Model.Text
import Lace.Model.Symbol
import Lace.Model.Lexer
import Lace.Model.Air
import Lace.Model.Parser
import Lace.Model.Assemble
import Lace.Props.C02
import Lace.Proofs.AsmLex
import Lace.Proofs.AsmParse
import Lace.Props.C05
import Lace.Props.C19
import Lace.Proofs.AsmFlag
import Lace.Props.C18Asm
