-- Root of the `Lace` library: specification, model and theorems.
import Lace.Basic.Machine
import Lace.Basic.Fmt
import Lace.Spec.ISA
import Lace.Model.VM
import Lace.Props.C02
import Lace.Props.C03
import Lace.Model.Cli
import Lace.Props.C06
import Lace.Basic.Keys
import Lace.Model.Editor
import Lace.Spec.RefEditor
import Lace.Props.C20
import Lace.Spec.CmdGrammar
import Lace.Model.Cmd.Reader
import Lace.Props.C14
