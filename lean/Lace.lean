-- Root of the `Lace` library: specification, model and theorems.
import Lace.Basic.Machine
import Lace.Basic.Fmt
import Lace.Spec.ISA
import Lace.Model.VM
import Lace.Props.C02
import Lace.Spec.CmdGrammar
import Lace.Model.Cmd.Reader
import Lace.Props.C14
