//! C15 (`eval`) and C17 (the debugger's view of source and symbols): SOURCE-LEVEL debugger sessions.
//!
//! A program is an abstract `asmgen::Prog`; `asmgen::render_spans` lays it out as text and reports,
//! per statement, the text it wrote and the words it produces.  The session is run on the real
//! assembler + debugger (`dbg::run_session`) and, by the model driver, on the Lean assembler model +
//! debugger model (`E15` / `V17` requests); the driver's SPEC answer uses the abstract program's
//! own origin / statement texts / label table / `.break` positions and `Spec.execAbs` for `eval`.
//! `B17` requests (C17, breakpoint table): the same kind of session in the NORMAL output mode; the
//! observable is what `break list` printed (`c17_table_session`, `run_table`, `dbg::break_tables`).
use crate::asmgen::{self, Item, Operand, Prog, Rendered, Style};
use crate::cap::Capture;
use crate::dbg::{run_src, Cmd, Loc, SrcCase};
use crate::prng::Rng;

const ORIGS: &[i32] = &[0x3000, 0x3000, 0x0200, 0x0000, 0x0001, 0x7FF0, 0x7FFF, 0x8000, 0x8001, 0x9000, 0xC000, 0xF000, 0xFD00, 0xFDF0, 0xFDFF];

fn is_keyword(l: &str) -> bool {
    let l = l.to_ascii_lowercase();
    asmgen::MNEMONICS.contains(&l.as_str())
}

/// I13: the assembler lexes the name as a label.
fn assembler_label(n: &str) -> bool {
    if n.is_empty() || is_keyword(n) {
        return false;
    }
    let b = n.as_bytes();
    if n.len() == 2 && (b[0] == b'r' || b[0] == b'R') && (b'0'..=b'7').contains(&b[1]) {
        return false;
    }
    // hex-literal shapes: x… / 0x… whose remainder is all hex digits (or empty)
    let rest = if b[0] == b'x' || b[0] == b'X' {
        Some(&n[1..])
    } else if n.len() >= 2 && b[0] == b'0' && (b[1] == b'x' || b[1] == b'X') {
        Some(&n[2..])
    } else {
        None
    };
    if let Some(r) = rest {
        let r = r.strip_prefix('-').or(r.strip_prefix('+')).unwrap_or(r);
        if r.chars().all(|c| c.is_ascii_hexdigit()) {
            return false;
        }
    }
    true
}

/// The integer grammar of the debugger's command language (documented in `naive.rs`, specified in
/// `Lace/Spec/CmdGrammar.lean`, `integer`): is the token an integer (`Ok`), a malformed integer
/// (`Err`) or not an integer at all (`NotInt`: it may be a label)?
#[derive(PartialEq, Clone, Copy, Debug)]
enum IntShape {
    Ok,
    Err,
    NotInt,
}

fn int_shape(t: &str) -> IntShape {
    let cs: Vec<char> = t.chars().collect();
    if cs.is_empty() {
        return IntShape::NotInt;
    }
    let digit = |r: u32, c: char| c.to_digit(36).map_or(false, |d| d < r);
    let number = |definite: bool, r: u32, body: &[char]| -> IntShape {
        let not_this = if definite { IntShape::Err } else { IntShape::NotInt };
        if body.is_empty() {
            return not_this;
        }
        let mut v: u128 = 0;
        let mut n = 0;
        for c in body {
            if !digit(r, *c) {
                break;
            }
            v = (v * r as u128 + c.to_digit(36).unwrap() as u128).min(1 << 100);
            n += 1;
        }
        if v > i32::MAX as u128 {
            IntShape::Err
        } else if n < body.len() {
            not_this
        } else {
            IntShape::Ok
        }
    };
    let (sign1, s1) = if cs[0] == '+' || cs[0] == '-' { (true, &cs[1..]) } else { (false, &cs[..]) };
    if s1.len() == 1 && s1[0] == '0' {
        return IntShape::Ok;
    }
    let (zero, s2) = if !s1.is_empty() && s1[0] == '0' { (true, &s1[1..]) } else { (false, s1) };
    if s2.is_empty() {
        return if sign1 { IntShape::Err } else { IntShape::NotInt };
    }
    let c = s2[0];
    let radix = match c {
        'b' | 'B' => Some(2),
        'o' | 'O' => Some(8),
        'x' | 'X' => Some(16),
        '#' => Some(10),
        _ => None,
    };
    match radix {
        Some(r) => {
            if c == '#' && zero {
                return IntShape::Err;
            }
            let rest = &s2[1..];
            let (sign2, body) = if !rest.is_empty() && (rest[0] == '+' || rest[0] == '-') { (true, &rest[1..]) } else { (false, rest) };
            if sign1 && sign2 {
                return IntShape::Err;
            }
            number(sign1 || sign2 || zero || r == 10, r, body)
        }
        None => {
            if digit(10, c) {
                number(true, 10, s2)
            } else if c == '+' || c == '-' || zero || sign1 {
                IntShape::Err
            } else {
                IntShape::NotInt
            }
        }
    }
}

/// I14: the debugger's command grammar reads the location text `name`, `name+k`, `name-k` as that
/// label with that offset (and not as an integer, a malformed integer or a register).
fn loc_nameable(text: &str) -> bool {
    let b = text.as_bytes();
    if b.is_empty() || !(b[0].is_ascii_alphabetic() || b[0] == b'_') {
        return false;
    }
    if text.len() == 2 && (b[0] == b'r' || b[0] == b'R') && (b'0'..=b'7').contains(&b[1]) {
        return false;
    }
    int_shape(text) == IntShape::NotInt
}

/// I14: the label can be named on its own.
fn nameable(n: &str) -> bool {
    n.bytes().all(|c| c.is_ascii_alphanumeric() || c == b'_') && loc_nameable(n)
}

/// A label location the command grammar can express; falls back to offset 0.
fn label_loc(name: &str, off: i32) -> Loc {
    let l = Loc::Label(name.to_string(), off);
    if loc_nameable(&l.text()) { l } else { Loc::Label(name.to_string(), 0) }
}

fn gen_label_name(rng: &mut Rng) -> String {
    const POOL: &[&str] = &[
        "loop", "LOOP", "Loop", "val", "other", "done", "x_1", "xyz", "r8", "R12", "r1x", "r0_save", "R7_", "r3_x", "_", "__t", "halt1", "addx",
        "brnzpx", "b2", "b102", "o8", "puts_", "in2", "data", "msg", "sub_1", "xg", "end", "fill", "orig", "stringz", "k",
        "a", "A", "z9", "Q_", "far", "near", "ptr", "buf", "o", "b", "x",
    ];
    loop {
        let n = if rng.chance(2, 3) {
            rng.pick(POOL).to_string()
        } else {
            let mut s = String::new();
            let first = b"abcdefghijklmnopqrstuvwxyzABCDEFGHIJKLMNOPQRSTUVWXYZ_";
            s.push(first[rng.below(first.len() as u64) as usize] as char);
            let more = b"abcdefxyzABCDEFXYZ0123456789_";
            for _ in 0..rng.below(6) {
                s.push(more[rng.below(more.len() as u64) as usize] as char);
            }
            s
        };
        if assembler_label(&n) && nameable(&n) {
            return n;
        }
    }
}

pub struct SessionProg {
    pub prog: Prog,
    pub stack: bool,
    pub kind: &'static str,
}

/// A well-formed program over the whole statement set; label operands of its own instructions are
/// always in range.  `far` = a `.blkw` of several hundred words in the middle (and then no
/// instruction of the program itself has a label operand).
pub fn gen_session_prog(rng: &mut Rng, far: bool, c17: bool) -> SessionProg {
    let stack = rng.chance(1, 3);
    let n = if c17 { 2 + rng.below(22) as usize } else { 3 + rng.below(14) as usize };
    let mut names: Vec<String> = Vec::new();
    let want = 1 + rng.below((n as u64).min(7)) as usize;
    let mut guard = 0;
    while names.len() < want && guard < 200 {
        guard += 1;
        let nm = gen_label_name(rng);
        if !names.iter().any(|x: &String| x == &nm) {
            names.push(nm);
        }
    }
    // at most one label per statement
    let mut slots: Vec<usize> = (0..n).collect();
    let mut def_at: Vec<usize> = Vec::new();
    for _ in 0..names.len() {
        let k = rng.below(slots.len() as u64) as usize;
        def_at.push(slots.remove(k));
    }
    let mut p = Prog::default();
    let orig_pos = if rng.chance(1, 8) { Some(1 + rng.below(n as u64) as usize) } else { None };
    let has_orig = rng.chance(4, 5);
    let orig_val = *rng.pick(ORIGS);
    if has_orig && orig_pos.is_none() {
        p.items.push(Item::Orig(orig_val));
    }
    let far_at = if far { Some(1 + rng.below((n - 1) as u64) as usize) } else { None };
    for i in 0..n {
        if has_orig && orig_pos == Some(i) {
            // `.orig` interleaved with the statements
            p.items.push(Item::Orig(orig_val));
        }
        if rng.chance(1, 9) {
            p.items.push(Item::Break);
        }
        let labels: Vec<String> = names.iter().zip(&def_at).filter(|(_, d)| **d == i).map(|(nm, _)| nm.clone()).collect();
        let reg = |rng: &mut Rng| Operand::Reg(rng.below(8) as u8);
        let lab = |rng: &mut Rng| Operand::Label(rng.pick(&names).clone());
        if far_at == Some(i) {
            p.items.push(Item::Stmt { labels, op: ".blkw".into(), args: vec![Operand::Imm(*rng.pick(&[255, 256, 257, 300, 600, 1023, 1024, 1030]))] });
            continue;
        }
        let kinds = if stack { 24 } else { 20 };
        let mut k = rng.below(kinds);
        if far && matches!(k, 2 | 4 | 6 | 7 | 9 | 13 | 14 | 22) {
            k = 0;
        }
        let (op, args): (String, Vec<Operand>) = match k {
            0 | 1 => {
                let op = if rng.chance(1, 2) { "add" } else { "and" };
                let last = if rng.chance(1, 2) { reg(rng) } else { Operand::Imm(rng.range(-16, 15) as i32) };
                (op.into(), vec![reg(rng), reg(rng), last])
            }
            2 => (rng.pick(asmgen::BR).to_string(), vec![lab(rng)]),
            3 => ("jmp".into(), vec![reg(rng)]),
            4 => ("jsr".into(), vec![lab(rng)]),
            5 => ("jsrr".into(), vec![reg(rng)]),
            6 => ("ld".into(), vec![reg(rng), lab(rng)]),
            7 => ("ldi".into(), vec![reg(rng), lab(rng)]),
            8 => {
                let op = if rng.chance(1, 2) { "ldr" } else { "str" };
                (op.into(), vec![reg(rng), reg(rng), Operand::Imm(rng.range(-32, 31) as i32)])
            }
            9 => ("lea".into(), vec![reg(rng), lab(rng)]),
            10 => ("not".into(), vec![reg(rng), reg(rng)]),
            11 => (rng.pick(&["ret", "rti", "ret"]).to_string(), vec![]),
            12 => ("trap".into(), vec![Operand::Imm(rng.range(0, 255) as i32)]),
            13 => ("st".into(), vec![reg(rng), lab(rng)]),
            14 => ("sti".into(), vec![reg(rng), lab(rng)]),
            15 | 16 => (rng.pick(asmgen::TRAPS).to_string(), vec![]),
            17 => (".fill".into(), vec![Operand::Imm(rng.range(-0x8000, 0xFFFF) as i32)]),
            18 => {
                // a labelled statement must produce a word (otherwise the label marks the next one)
                let lo = if labels.is_empty() && rng.chance(1, 6) { 0 } else { 1 };
                (".blkw".into(), vec![Operand::Imm(rng.range(lo, 4) as i32)])
            }
            19 => (".stringz".into(), vec![Operand::Str(asmgen::gen_string(rng))]),
            20 => ("push".into(), vec![reg(rng)]),
            21 => ("pop".into(), vec![reg(rng)]),
            22 => ("call".into(), vec![lab(rng)]),
            _ => ("rets".into(), vec![]),
        };
        p.items.push(Item::Stmt { labels, op, args });
    }
    if rng.chance(1, 8) {
        p.items.push(Item::Break);
    }
    if rng.chance(1, 3) {
        p.items.push(Item::End);
    }
    SessionProg { prog: p, stack, kind: if far { "far" } else { "near" } }
}

fn make_case(tag: &'static str, sp: &SessionProg, r: &Rendered, inp: Vec<u8>, cmds: Vec<Cmd>) -> SrcCase {
    SrcCase {
        tag,
        stack: sp.stack,
        fuel: 20_000,
        inp,
        src: r.text.clone(),
        orig: r.orig,
        texts: r.word_texts(),
        breaks: r.breaks.clone(),
        labels: r.labels.clone(),
        cmds,
    }
}

// ------------------------------------------------------------------------------------ C15

fn spell_reg(rng: &mut Rng, r: u8) -> String {
    format!("{}{}", if rng.chance(3, 4) { "r" } else { "R" }, r)
}

fn join_ops(rng: &mut Rng, op: &str, args: &[String]) -> String {
    let mut s = if rng.chance(3, 4) { op.to_string() } else { asmgen::rand_case(rng, op) };
    for a in args {
        s.push_str(*rng.pick(&[" ", " ", ", ", ",", "  ", " , ", "\t", ": "]));
        s.push_str(a);
    }
    s
}

macro_rules! jo {
    ($rng:expr, $op:expr, [$($a:expr),*]) => {{
        let op: String = ($op).to_string();
        let args: Vec<String> = vec![$($a),*];
        join_ops($rng, &op, &args)
    }};
}

/// A well-formed `eval` instruction of every form; returns (text, form name).
fn gen_eval_ok(rng: &mut Rng, labels: &[(String, usize)], stack: bool) -> (String, &'static str) {
    let reg = |rng: &mut Rng| {
        let r = rng.below(8) as u8;
        spell_reg(rng, r)
    };
    let lab = |rng: &mut Rng| -> String {
        if labels.is_empty() {
            "nolabel".into()
        } else {
            rng.pick(labels).0.clone()
        }
    };
    let n = if stack { 30 } else { 26 };
    match rng.below(n) {
        0 => (jo!(rng, "add", [reg(rng), reg(rng), reg(rng)]), "add-reg"),
        1 => {
            let v = rng.range(-16, 15) as i32;
            (jo!(rng, "add", [reg(rng), reg(rng), asmgen::spell_lit(rng, v)]), "add-imm")
        }
        2 => (jo!(rng, "and", [reg(rng), reg(rng), reg(rng)]), "and-reg"),
        3 => {
            let v = rng.range(-16, 15) as i32;
            (jo!(rng, "and", [reg(rng), reg(rng), asmgen::spell_lit(rng, v)]), "and-imm")
        }
        4 => (jo!(rng, "not", [reg(rng), reg(rng)]), "not"),
        5 => {
            let v = rng.range(-32, 31) as i32;
            (jo!(rng, "ldr", [reg(rng), reg(rng), asmgen::spell_lit(rng, v)]), "ldr")
        }
        6 => {
            let v = rng.range(-32, 31) as i32;
            (jo!(rng, "str", [reg(rng), reg(rng), asmgen::spell_lit(rng, v)]), "str")
        }
        7 | 8 => (jo!(rng, "ld", [reg(rng), lab(rng)]), "ld"),
        9 | 10 => (jo!(rng, "ldi", [reg(rng), lab(rng)]), "ldi"),
        11 | 12 => (jo!(rng, "lea", [reg(rng), lab(rng)]), "lea"),
        13 | 14 => (jo!(rng, "st", [reg(rng), lab(rng)]), "st"),
        15 | 16 => (jo!(rng, "sti", [reg(rng), lab(rng)]), "sti"),
        17 => (jo!(rng, "jsr", [lab(rng)]), "jsr"),
        18 => (jo!(rng, "jsrr", [reg(rng)]), "jsrr"),
        19 => (jo!(rng, "jmp", [reg(rng)]), "jmp"),
        20 => (jo!(rng, "ret", []), "ret"),
        21 => (jo!(rng, *rng.pick(&["out", "puts", "putsp", "putn", "reg"]), []), "trap-out"),
        22 => (jo!(rng, *rng.pick(&["getc", "in"]), []), "trap-in"),
        23 => {
            let v = rng.range(0x20, 0x27) as i32;
            (jo!(rng, "trap", [asmgen::spell_lit(rng, v)]), "trap-vec")
        }
        // off-limits
        24 => match rng.below(4) {
            0 => (jo!(rng, *rng.pick(asmgen::BR), [lab(rng)]), "refuse-br"),
            1 => (jo!(rng, "rti", []), "refuse-rti"),
            2 => (jo!(rng, *rng.pick(&["halt", "trap x25", "trap #37"]), []), "refuse-halt"),
            _ => {
                let v = *rng.pick(&[0, 1, 0x1F, 0x28, 0x30, 0x7F, 0x80, 0xFF]);
                (jo!(rng, "trap", [asmgen::spell_lit(rng, v)]), "refuse-trap")
            }
        },
        // literal PC offsets: unspecified by the property, mirrored by the model (few)
        25 => {
            let v = rng.range(-4, 4) as i32;
            (jo!(rng, *rng.pick(&["ld", "lea", "st"]), [reg(rng), asmgen::spell_lit(rng, v)]), "literal-offset")
        }
        26 => (jo!(rng, "push", [reg(rng)]), "push"),
        27 => (jo!(rng, "pop", [reg(rng)]), "pop"),
        28 => (jo!(rng, "call", [lab(rng)]), "call"),
        _ => (jo!(rng, "rets", []), "rets"),
    }
}

/// Text that is not exactly one well-formed instruction.
fn gen_eval_bad(rng: &mut Rng, labels: &[(String, usize)], stack: bool) -> (String, &'static str) {
    let lab = |rng: &mut Rng| -> String {
        if labels.is_empty() { "nolabel".into() } else { rng.pick(labels).0.clone() }
    };
    let (good, _) = gen_eval_ok(rng, labels, stack);
    let toks: Vec<String> = good.split(|c: char| c == ' ' || c == ',' || c == '\t' || c == ':').filter(|t| !t.is_empty()).map(|t| t.to_string()).collect();
    match rng.below(11) {
        0 if toks.len() > 1 => (toks[..toks.len() - 1].join(" "), "missing-operand"),
        1 => {
            let extra = match rng.below(5) {
                0 => format!("r{}", rng.below(8)),
                1 => asmgen::spell_lit(rng, 1),
                2 => lab(rng),
                3 => "add".to_string(),
                _ => "\"s\"".to_string(),
            };
            (format!("{} {}", good, extra), "surplus-operand")
        }
        2 if toks.len() > 1 => {
            let i = 1 + rng.below(toks.len() as u64 - 1) as usize;
            let mut t = toks.clone();
            t[i] = match rng.below(5) {
                0 => lab(rng),
                1 => format!("r{}", rng.below(8)),
                2 => {
                    let v = *rng.pick(&[0, 1, -1, 16, -17, 32, -33, 255, 256, 0x7FFF]);
                    asmgen::spell_lit(rng, v)
                }
                3 => "\"str\"".into(),
                _ => rng.pick(asmgen::MNEMONICS).to_string(),
            };
            (t.join(" "), "wrong-kind")
        }
        3 => {
            let (g2, _) = gen_eval_ok(rng, labels, stack);
            (format!("{} {}", good, g2), "two-instructions")
        }
        4 => (rng.pick(&[".fill x3", ".break", ".orig x3000", ".stringz \"a\"", ".blkw 2", ".end", ".fill #-1", ".FILL x0", "add r0 r0 #1 .end", "ret .break", ".blkw"]).to_string(), "directive"),
        5 => {
            let v = *rng.pick(&[16, -17, 31, 32, 0x7FFF, 0xFFEF, 0x10]);
            (format!("{} r1 r2 {}", rng.pick(&["add", "and"]), asmgen::spell_lit(rng, v)), "imm-range")
        }
        6 => {
            let v = *rng.pick(&[32, -33, 63, 64, -64, 0x7FFF]);
            (format!("{} r1 r2 {}", rng.pick(&["ldr", "str"]), asmgen::spell_lit(rng, v)), "off6-range")
        }
        7 => {
            let l = *rng.pick(&["undefined_", "Val_", "nolabel", "LOOPx"]);
            match rng.below(3) {
                0 => (format!("{} {}", rng.pick(&["jsr", "call", "br", "brnzp"]), l), "unknown-label"),
                _ => (format!("{} r3 {}", rng.pick(&["ld", "ldi", "lea", "st", "sti"]), l), "unknown-label"),
            }
        }
        8 => {
            let mut s = String::new();
            for _ in 0..1 + rng.below(4) {
                s.push_str(&asmgen::any_token(rng));
                s.push(' ');
            }
            (s, "soup")
        }
        9 => (rng.pick(&["r0", "#1", "x3000", "\"abc\"", "\"abc", "xé", "é", "@", "val val", "trap", "trap r0", "trap val", "jsrr #1", "jmp val", "not r0", "not r0 #1", "ld val r0", "lea r0", "jsr", "jsr r0", "add r0, r1", "add #1 r0 r0"]).to_string(), "misc"),
        _ => (format!("{} r0", rng.pick(asmgen::STACK)), "stack-mnemonic"),
    }
}

/// Make the text acceptable as the argument of one `eval` command: no command separator, no line
/// break, no control characters, trimmed the way `get_rest` trims; `None` if nothing is left.
fn eval_arg(s: &str) -> Option<String> {
    let t: String = s.chars().filter(|c| *c != ';' && !c.is_control() || *c == '\t').collect();
    let t = t.trim().to_string();
    if t.is_empty() { None } else { Some(t) }
}

fn setup_regs(rng: &mut Rng, r: &Rendered, cmds: &mut Vec<Cmd>) {
    for _ in 0..rng.below(5) {
        let v = match rng.below(5) {
            0 => *rng.pick(&[0u16, 1, 0x7FFF, 0x8000, 0xFFFF, 0x00FF]),
            1 | 2 => r.orig.wrapping_add(rng.below(r.nwords as u64 + 2) as u16),
            _ => rng.u16(),
        };
        cmds.push(Cmd::MoveReg(rng.below(8) as u8, v));
    }
}

fn c15_session(rng: &mut Rng, far: bool) -> (SrcCase, Vec<&'static str>) {
    let sp = gen_session_prog(rng, far, false);
    let style = if rng.chance(1, 3) { Style::Wild } else { Style::Plain };
    let r = asmgen::render_spans(rng, &sp.prog, style, true);
    let mut cmds = Vec::new();
    let mut forms = Vec::new();
    setup_regs(rng, &r, &mut cmds);
    let nevals = 1 + rng.below(4);
    for _ in 0..nevals {
        // a ∈ every statement address (and the sentinel HALT after the program)
        let a = r.orig.wrapping_add(rng.below(r.nwords as u64 + 1) as u16);
        if rng.chance(1, 6) && !r.labels.is_empty() {
            cmds.push(Cmd::Goto(Loc::Label(rng.pick(&r.labels).0.clone(), 0)));
        } else {
            cmds.push(Cmd::Goto(Loc::Addr(a)));
        }
        if rng.chance(1, 5) {
            setup_regs(rng, &r, &mut cmds);
        }
        let (text, form) = if rng.chance(1, 4) { gen_eval_bad(rng, &r.labels, sp.stack) } else { gen_eval_ok(rng, &r.labels, sp.stack) };
        if let Some(t) = eval_arg(&text) {
            cmds.push(Cmd::Eval(t));
            forms.push(form);
        }
        cmds.push(Cmd::Registers);
        if !r.labels.is_empty() && rng.chance(1, 2) {
            cmds.push(Cmd::PrintMem(Loc::Label(rng.pick(&r.labels).0.clone(), 0)));
        }
    }
    cmds.push(Cmd::BreakList);
    cmds.push(Cmd::Exit);
    let inp: Vec<u8> = (0..rng.below(3)).map(|_| *rng.pick(&[b'a', b'Z', b'\n', 0x80, 0xFF, b'0', 0x1b])).collect();
    (make_case("E15", &sp, &r, inp, cmds), forms)
}

/// A fixed program for the minimised witnesses.
fn corpus_prog() -> (&'static str, Rendered) {
    let src = ".orig x3000\n        add r0, r0, #1\n        add r0, r0, #1\n        add r0, r0, #1\n        halt\nval     .fill x1234\nother   .fill x5678\nptr     .fill x3004\n";
    let texts = ["add r0, r0, #1", "add r0, r0, #1", "add r0, r0, #1", "halt", ".fill x1234", ".fill x5678", ".fill x3004"];
    let mut r = Rendered { text: src.to_string(), orig: 0x3000, nwords: 7, ..Default::default() };
    r.labels = vec![("val".into(), 4), ("other".into(), 5), ("ptr".into(), 6)];
    for (i, t) in texts.iter().enumerate() {
        let start = src.find(t).unwrap_or(0);
        r.stmts.push(asmgen::StmtInfo { item: i, start, end: start + t.len(), text: t.to_string(), words: 1, first_word: i });
    }
    (src, r)
}

/// Witnesses of every defect found in `eval` (D17, D18) and of the boundary behaviour.
pub fn c15_corpus() -> Vec<SrcCase> {
    let (_, r) = corpus_prog();
    let sp = SessionProg { prog: Prog::default(), stack: false, kind: "corpus" };
    let mut v = Vec::new();
    let mut add = |cmds: Vec<Cmd>, inp: &[u8]| {
        let mut c = cmds;
        c.push(Cmd::Exit);
        v.push(make_case("E15", &sp, &r, inp.to_vec(), c));
    };
    // D17: label operand away from the origin, at every statement address
    for a in 0x3000u16..=0x3007 {
        add(vec![Cmd::Goto(Loc::Addr(a)), Cmd::Eval("ld r3 val".into()), Cmd::Eval("lea r4 val".into()), Cmd::Eval("ldi r5 ptr".into()), Cmd::Registers], &[]);
        add(vec![Cmd::MoveReg(1, 0xBEEF), Cmd::Goto(Loc::Addr(a)), Cmd::Eval("st r1 other".into()), Cmd::Eval("sti r1 ptr".into()), Cmd::PrintMem(Loc::Label("other".into(), 0)), Cmd::PrintMem(Loc::Label("val".into(), 0))], &[]);
        add(vec![Cmd::Goto(Loc::Addr(a)), Cmd::Eval("jsr val".into()), Cmd::Registers], &[]);
    }
    // D18: surplus tokens
    for t in ["add r0 r0 r0 r0", "add r0 r0 #1 add r0 r0 #1", "ret ret", "add r0 r0 #1 .fill x3", "not r1 r1 val", "halt halt", "add r0 r0 #1 \"s\""] {
        add(vec![Cmd::Eval(t.into()), Cmd::Registers], &[]);
    }
    // refusals, directives, traps
    for t in ["br val", "brnzp val", "brz #0", "rti", "halt", "trap x25", "trap x1f", "trap x28", "trap xff", ".fill x3", ".break", ".orig x3000", ".end", "val", "r0", "#1", "add r0 r0", "ld r0 nolabel", "trap", "push r0", "\"abc", "xé", "jmp r0", "ret", "puts", "putn", "reg", "out", "trap x21"] {
        add(vec![Cmd::MoveReg(0, 0x41), Cmd::Eval(t.into()), Cmd::Registers], &[]);
    }
    // the PC moved (by an evaluated jump) to just below the origin and to the top of memory, then
    // PC-relative instructions with literal and with label operands: nothing may end the session
    for target in [0x2FFDu16, 0x2FFE, 0x2FFF, 0xFFFE, 0xFFFF, 0x0000] {
        for t in ["ld r1 #1", "ld r1 #-1", "lea r2 #0", "st r1 #2", "ldi r3 #1", "jsr #1", "br #1", "ld r1 val", "lea r2 other", "ld r1 x7FFF", "ld r1 #255", "ld r1 #-256"] {
            let c = vec![Cmd::MoveReg(0, target), Cmd::Eval("jmp r0".into()), Cmd::Eval(t.into()), Cmd::Registers, Cmd::Eval("add r4 r4 #1".into()), Cmd::Registers, Cmd::Exit];
            v.push(make_case("E15", &sp, &r, vec![], c));
        }
    }
    // a NUL character (possible in a script that is piped in) glued to a complete instruction, with
    // more text behind it: not one well-formed instruction
    for t in ["add r0 r0 r7\0 add r0 r0 #7", "lea r3 val\0 text", "ret\0x", "add r0 r0 #1\0", "add r0 r0 #1 \0 add r0 r0 #1", "not r1 r1\0\0", "\0add r1 r1 #1", "ld r1 val\0val"] {
        let c = vec![Cmd::MoveReg(7, 0x11), Cmd::Eval(t.into()), Cmd::Registers, Cmd::Exit];
        v.push(make_case("E15", &sp, &r, vec![], c));
    }
    // every label-bearing instruction with a label that does not exist (all must be refused, none
    // may end the session), also with the stack extension on, where `call` joins them
    let sp_stack = SessionProg { prog: Prog::default(), stack: true, kind: "corpus" };
    for stack in [false, true] {
        for t in [
            "ld r1 nolabel", "ldi r1 nolabel", "lea r1 nolabel", "st r1 nolabel", "sti r1 nolabel", "jsr nolabel", "call nolabel", "br nolabel",
            "call val", "call", "call r0", "call #1", "push r0", "pop r1", "rets", "push", "pop val", "rets r0", "CALL Val", "call VAL",
        ] {
            let mut c = vec![Cmd::MoveReg(0, 0x41), Cmd::Eval(t.into()), Cmd::Registers, Cmd::Eval("add r2 r2 #1".into()), Cmd::Registers];
            c.push(Cmd::Exit);
            v.push(make_case("E15", if stack { &sp_stack } else { &sp }, &r, vec![], c));
        }
    }
    let mut add = |cmds: Vec<Cmd>, inp: &[u8]| {
        let mut c = cmds;
        c.push(Cmd::Exit);
        v.push(make_case("E15", &sp, &r, inp.to_vec(), c));
    };
    // GETC / IN with and without input
    add(vec![Cmd::Eval("getc".into()), Cmd::Registers], b"q");
    add(vec![Cmd::Eval("in".into()), Cmd::Registers], b"\xc3");
    add(vec![Cmd::Eval("getc".into()), Cmd::Registers], &[]);
    add(vec![Cmd::Eval("in".into()), Cmd::Registers], &[]);
    v
}

pub fn run_c15(o: &crate::Opts) {
    let mut cap = Capture::install();
    let mut sink = crate::Sink::new(o);
    if let Some(path) = &o.replay {
        for line in std::fs::read_to_string(path).unwrap().lines() {
            match SrcCase::parse(line, "E15") {
                Some(c) => sink.put(line, &run_src(&mut cap, &c)),
                None => sink.put(line, "bad-request"),
            }
        }
        sink.finish(o, "{}");
        return;
    }
    let mut rng = Rng::new(o.seed.wrapping_mul(2654435761) ^ (o.shard as u64) << 32 ^ 0xC15);
    let total: u64 = if o.thorough { 300_000 } else { 5_600 };
    let per = total / o.nshards as u64;
    let mut forms: std::collections::BTreeMap<String, u64> = Default::default();
    let mut heads: std::collections::BTreeMap<String, u64> = Default::default();
    let mut samples = Vec::new();
    let mut ncorpus = 0;
    if o.shard == 0 {
        for c in c15_corpus() {
            let line = run_src(&mut cap, &c);
            sink.put(&c.request(), &line);
            ncorpus += 1;
        }
    }
    let mut nevals = 0u64;
    for _ in 0..per {
        let far = rng.chance(1, 8);
        let (c, fs) = c15_session(&mut rng, far);
        let line = run_src(&mut cap, &c);
        for f in &fs {
            *forms.entry(f.to_string()).or_default() += 1;
            nevals += 1;
        }
        *heads.entry(line.split(' ').next().unwrap_or("").to_string()).or_default() += 1;
        if samples.len() < 2 && rng.chance(1, 60) {
            samples.push(format!("{{\"source\":{:?},\"script\":{:?}}}", c.src, c.script()));
        }
        sink.put(&c.request(), &line);
    }
    let j = |m: &std::collections::BTreeMap<String, u64>| m.iter().map(|(k, v)| format!("\"{}\":{}", k, v)).collect::<Vec<_>>().join(",");
    let n_cases = sink.n;
    sink.finish(o, &format!("{{\"cases\":{},\"corpus\":{},\"evals\":{},\"eval_forms\":{{{}}},\"outcomes\":{{{}}},\"samples\":[{}]}}", n_cases, ncorpus, nevals, j(&forms), j(&heads), samples.join(",")));
}

// ------------------------------------------------------------------------------------ C17

fn c17_session(rng: &mut Rng) -> (SrcCase, usize, usize) {
    let sp = gen_session_prog(rng, false, true);
    let style = if rng.chance(1, 6) { Style::Plain } else { Style::Wild };
    // D23: sometimes nothing at all before the first token
    let lead = rng.chance(1, 2);
    let r = asmgen::render_spans(rng, &sp.prog, style, lead);
    let mut cmds = Vec::new();
    let n = r.nwords as u16;
    // every address in [orig − 2, orig + n + 2]
    let mut naddr = 0;
    for k in 0..(n as u32 + 5) {
        let a = r.orig.wrapping_sub(2).wrapping_add(k as u16);
        cmds.push(Cmd::AsmB(Loc::Addr(a)));
        naddr += 1;
    }
    for (name, _) in &r.labels {
        let off = |rng: &mut Rng| -> i32 {
            if rng.chance(1, 8) { *rng.pick(&[32767, -32768, 0x4000, -0x4000, 0x1000]) } else { rng.range(-3, 6) as i32 }
        };
        cmds.push(Cmd::PrintMem(Loc::Label(name.clone(), 0)));
        let o1 = off(rng);
        cmds.push(Cmd::PrintMem(label_loc(name, o1)));
        cmds.push(Cmd::AsmB(Loc::Label(name.clone(), 0)));
        let o2 = if rng.chance(1, 2) { 0 } else { off(rng) };
        cmds.push(Cmd::BreakAdd(label_loc(name, o2)));
        let o3 = if rng.chance(2, 3) { 0 } else { off(rng) };
        cmds.push(Cmd::Goto(label_loc(name, o3)));
        cmds.push(Cmd::AsmB(Loc::Pc(0)));
        cmds.push(Cmd::BreakAdd(Loc::Pc(0)));
    }
    // names that are not labels (also: case-insensitive near misses)
    if let Some((name, _)) = r.labels.first() {
        let other = if name.chars().any(|c| c.is_ascii_lowercase()) { name.to_uppercase() } else { name.to_lowercase() };
        if nameable(&other) && !r.labels.iter().any(|(x, _)| *x == other) {
            cmds.push(Cmd::PrintMem(Loc::Label(other, 0)));
        }
    }
    cmds.push(Cmd::BreakList);
    cmds.push(Cmd::Registers);
    cmds.push(Cmd::Exit);
    let nl = r.labels.len();
    (make_case("V17", &sp, &r, vec![], cmds), naddr, nl)
}

fn fixed_case(src: &str, orig: u16, texts: &[&str], labels: &[(&str, usize)], breaks: &[usize], stack: bool) -> SrcCase {
    let n = texts.len() as u32;
    let mut cmds = Vec::new();
    for k in 0..(n + 5) {
        cmds.push(Cmd::AsmB(Loc::Addr(orig.wrapping_sub(2).wrapping_add(k as u16))));
    }
    for (l, _) in labels {
        cmds.push(Cmd::PrintMem(Loc::Label(l.to_string(), 0)));
        cmds.push(Cmd::PrintMem(label_loc(l, 1)));
        cmds.push(Cmd::BreakAdd(Loc::Label(l.to_string(), 0)));
        cmds.push(Cmd::Goto(Loc::Label(l.to_string(), 0)));
        cmds.push(Cmd::AsmB(Loc::Pc(0)));
    }
    cmds.push(Cmd::BreakList);
    cmds.push(Cmd::Registers);
    cmds.push(Cmd::Exit);
    SrcCase {
        tag: "V17",
        stack,
        fuel: 20_000,
        inp: vec![],
        src: src.to_string(),
        orig,
        texts: texts.iter().map(|t| t.to_string()).collect(),
        breaks: breaks.to_vec(),
        labels: labels.iter().map(|(l, k)| (l.to_string(), *k)).collect(),
        cmds,
    }
}

/// A program longer than 32,768 words: a statement, one `.blkw` of `gap` words, two statements.
/// The addresses asked for lie on both sides of origin + 0x7FFF / 0x8000 (word distances that do
/// not fit a signed 16-bit number) and at both ends of the program.
fn far_case(tag: &'static str, orig: u16, gap: u16, table: bool) -> SrcCase {
    let blk = format!(".blkw x{:X}", gap);
    let src = format!(".orig x{:04X}\nfirst add r0 r0 #1\nbig {}\nfar halt\nlast: .fill x7\n", orig, blk);
    let mut texts = vec!["add r0 r0 #1".to_string()];
    texts.extend(std::iter::repeat(blk.clone()).take(gap as usize));
    texts.push("halt".to_string());
    texts.push(".fill x7".to_string());
    let n = texts.len() as u32;
    let mut at: Vec<u32> = vec![0, 1, 2, 0x7FFE, 0x7FFF, 0x8000, 0x8001, 0x8002, gap as u32 - 1, gap as u32, gap as u32 + 1, gap as u32 + 2, gap as u32 + 3];
    at.retain(|k| *k <= n + 1);
    at.sort();
    at.dedup();
    let labels = vec![("first".to_string(), 0usize), ("big".to_string(), 1), ("far".to_string(), gap as usize + 1), ("last".to_string(), gap as usize + 2)];
    let mut cmds = Vec::new();
    if table {
        for k in &at {
            let a = orig as u32 + k;
            if a < 0xFE00 {
                cmds.push(Cmd::BreakAdd(Loc::Addr(a as u16)));
            }
        }
        cmds.push(Cmd::BreakAdd(Loc::Label("far".into(), 0)));
        cmds.push(Cmd::BreakAdd(label_loc("big", 0x7FFF)));
        cmds.push(Cmd::BreakListB);
    } else {
        cmds.push(Cmd::AsmB(Loc::Addr(orig.wrapping_sub(1))));
        for k in &at {
            cmds.push(Cmd::AsmB(Loc::Addr((orig as u32 + k) as u16)));
        }
        for (l, _) in &labels {
            cmds.push(Cmd::PrintMem(Loc::Label(l.clone(), 0)));
            cmds.push(Cmd::AsmB(Loc::Label(l.clone(), 0)));
            cmds.push(Cmd::BreakAdd(Loc::Label(l.clone(), 0)));
            cmds.push(Cmd::Goto(Loc::Label(l.clone(), 0)));
            cmds.push(Cmd::AsmB(Loc::Pc(0)));
        }
        cmds.push(Cmd::AsmB(label_loc("big", 0x7FFF)));
        cmds.push(Cmd::AsmB(label_loc("far", -0x8000)));
        cmds.push(Cmd::BreakList);
        cmds.push(Cmd::Registers);
    }
    cmds.push(Cmd::Exit);
    SrcCase { tag, stack: false, fuel: 20_000, inp: vec![], src, orig, texts, breaks: vec![], labels, cmds }
}

/// Witnesses of the defects in this domain (D19, D23) and of the shapes the property names.
pub fn c17_corpus() -> Vec<SrcCase> {
    let mut v = c17_corpus_small();
    // statements 0x8000 words and more after the first one
    v.push(far_case("V17", 0x3000, 0x8000, false));
    v.push(far_case("V17", 0x0001, 0xC000, false));
    v.push(far_case("V17", 0x7FFE, 0x7FF0, false));
    v
}

fn c17_corpus_small() -> Vec<SrcCase> {
    vec![
        // D23: a statement at byte 0 of the file that consumes no operand
        fixed_case("halt\nadd r0 r0 #1\n", 0x3000, &["halt", "add r0 r0 #1"], &[], &[], false),
        fixed_case(".fill x5\nret", 0x3000, &[".fill x5", "ret"], &[], &[], false),
        fixed_case("ret", 0x3000, &["ret"], &[], &[], false),
        // operand-less instruction directly after an operand-ful one, on the same line
        fixed_case(".orig x3000\nadd r1,r2,r3 ret\nnot r1 r1 halt", 0x3000, &["add r1,r2,r3", "ret", "not r1 r1", "halt"], &[], &[], false),
        // D19: labels at and above 0x8000
        fixed_case(".orig x8000\nnear halt\nfar .fill x1\n", 0x8000, &["halt", ".fill x1"], &[("near", 0), ("far", 1)], &[], false),
        fixed_case(".orig x7FFF\na halt\nfar .fill x1\n", 0x7FFF, &["halt", ".fill x1"], &[("a", 0), ("far", 1)], &[], false),
        // multi-word directives share one text; multi-byte characters; labels with colon
        fixed_case(".orig x4000\nmsg: .stringz \"hé→\"\nbuf .blkw 3 ; é\nk .fill #-1\n", 0x4000, &[".stringz \"hé→\"", ".stringz \"hé→\"", ".stringz \"hé→\"", ".stringz \"hé→\"", ".blkw 3", ".blkw 3", ".blkw 3", ".fill #-1"], &[("msg", 0), ("buf", 4), ("k", 7)], &[], false),
        // operands on several lines with a comment in between; `.break` and `.orig` interleaved
        fixed_case("add r0,\n r1 ; c é\n , r2\n.break\n.orig x5000\nlp ld r0 lp\n.break\n", 0x5000, &["add r0,\n r1 ; c é\n , r2", "ld r0 lp"], &[("lp", 1)], &[1, 2], false),
        // the image ends exactly at the top of memory and a label stands behind its last statement
        // (`orig + line` of that label is 0x10000)
        fixed_case(".orig xFFFC\na add r0 r0 #0\nb halt\nc .fill x7\ntail .break\n", 0xFFFC, &["add r0 r0 #0", "halt", ".fill x7"], &[("a", 0), ("b", 1), ("c", 2), ("tail", 3)], &[3], false),
        {
            let mut texts = vec!["halt"];
            texts.extend(std::iter::repeat(".blkw x200").take(0x200));
            texts.push("halt");
            fixed_case(".orig xFDFD\nfirst halt\nbuf .blkw x200\nlast halt\ntail .break\n", 0xFDFD, &texts, &[("first", 0), ("buf", 1), ("last", 0x201), ("tail", 0x202)], &[0x202], false)
        },
        // a directive directly behind a label operand, without any separator
        fixed_case(".orig x3000\nbr skip.fill x1234\nskip st r0, val.stringz \"h\u{e9}\"\nval lea r1 skip.blkw 2 halt\n", 0x3000, &["br skip", ".fill x1234", "st r0, val", ".stringz \"h\u{e9}\"", ".stringz \"h\u{e9}\"", ".stringz \"h\u{e9}\"", "lea r1 skip", ".blkw 2", ".blkw 2", "halt"], &[("skip", 2), ("val", 6)], &[], false),
        // user space ends inside the program
        fixed_case(".orig xFDFF\na add r0 r0 #0\nb add r0 r0 #1\nc halt\n", 0xFDFF, &["add r0 r0 #0", "add r0 r0 #1", "halt"], &[("a", 0), ("b", 1), ("c", 2)], &[], false),
    ]
}

// ------------------------------------------------------------------------------------ C17, breakpoint table

/// A label of exactly `len` characters that both the assembler and the command grammar read as a label.
fn gen_label_of_len(rng: &mut Rng, len: usize) -> String {
    loop {
        let mut s = String::new();
        let first = b"abcdefghijklmnopqrstuvwyzABCDEFGHIJKLMNOPQRSTUVWYZ_";
        s.push(first[rng.below(first.len() as u64) as usize] as char);
        let more = b"abcdefghijklmnopqrstuvwxyzABCDEFXYZ0123456789__";
        while s.len() < len {
            s.push(more[rng.below(more.len() as u64) as usize] as char);
        }
        if assembler_label(&s) && nameable(&s) {
            return s;
        }
    }
}

/// The content of a string literal of exactly `n` characters: letters, blanks, multi-byte
/// characters (each is ONE character of the cell), no escapes.
fn gen_string_of_len(rng: &mut Rng, n: usize) -> String {
    let mut s = String::new();
    for _ in 0..n {
        match rng.below(6) {
            0 => s.push_str(*rng.pick(asmgen::WIDE)),
            1 => s.push(' '),
            _ => s.push((b'a' + rng.below(26) as u8) as char),
        }
    }
    s
}

/// Make the program interesting for the table's two text columns: labels of 11…30 characters
/// (12 fit the label cell, 13 do not), `.stringz` statements whose text is 24…40 characters (26 fit
/// the statement cell, 27 do not) with multi-byte characters anywhere, the cut-off position included.
fn stretch(rng: &mut Rng, p: &mut Prog) -> (usize, usize) {
    let mut names: Vec<String> = Vec::new();
    for it in &p.items {
        if let Item::Stmt { labels, .. } = it {
            for l in labels {
                if !names.contains(l) {
                    names.push(l.clone());
                }
            }
        }
    }
    let mut map: Vec<(String, String)> = Vec::new();
    for n in &names {
        if rng.chance(3, 5) {
            loop {
                let len = *rng.pick(&[10usize, 11, 12, 12, 13, 13, 14, 15, 20, 30]);
                let cand = gen_label_of_len(rng, len);
                if !names.contains(&cand) && !map.iter().any(|(_, b)| *b == cand) {
                    map.push((n.clone(), cand));
                    break;
                }
            }
        }
    }
    let ren = |l: &String| -> String { map.iter().find(|(a, _)| a == l).map(|(_, b)| b.clone()).unwrap_or(l.clone()) };
    let mut long_strings = 0;
    for it in p.items.iter_mut() {
        if let Item::Stmt { labels, op, args } = it {
            for l in labels.iter_mut() {
                *l = ren(l);
            }
            for a in args.iter_mut() {
                if let Operand::Label(l) = a {
                    *l = ren(l);
                }
            }
            if op == ".stringz" && rng.chance(2, 3) {
                // `.stringz "` + content + `"` = 11 + n characters under the plain layout
                let n = *rng.pick(&[13usize, 14, 15, 15, 16, 16, 17, 20, 29]);
                *args = vec![Operand::Str(gen_string_of_len(rng, n))];
                long_strings += 1;
            }
        }
    }
    (map.len(), long_strings)
}

struct TableStats {
    renamed: usize,
    long_strings: usize,
    adds: usize,
    lists: usize,
}

/// A session in the NORMAL output mode: breakpoints at statement addresses, at addresses inside
/// user space that hold no statement, at labels (± offsets), refused ones outside user space, some
/// removed again; `break list` (bracketed) once or more; `exit`.  Nothing is executed.
fn c17_table_session(rng: &mut Rng) -> (SrcCase, TableStats) {
    let mut sp = gen_session_prog(rng, false, true);
    let (renamed, long_strings) = stretch(rng, &mut sp.prog);
    let style = if rng.chance(2, 5) { Style::Plain } else { Style::Wild };
    let lead = rng.chance(1, 2);
    let r = asmgen::render_spans(rng, &sp.prog, style, lead);
    let n = r.nwords as u32;
    let mut cmds = Vec::new();
    let mut st = TableStats { renamed, long_strings, adds: 0, lists: 0 };
    if rng.chance(1, 4) {
        // before anything is added: only the `.break`s of the source, or nothing at all
        cmds.push(Cmd::BreakListB);
        st.lists += 1;
    }
    let in_user = |a: u32| a >= r.orig as u32 && a < 0xFE00;
    let mut addrs: Vec<u16> = Vec::new();
    match rng.below(3) {
        0 => {
            // every address of the program and two beyond
            for k in 0..(n + 2) {
                addrs.push(r.orig.wrapping_add(k as u16));
            }
        }
        1 => {
            for k in 0..(n + 2) {
                if rng.chance(1, 2) {
                    addrs.push(r.orig.wrapping_add(k as u16));
                }
            }
        }
        _ => {
            for _ in 0..1 + rng.below(4) {
                addrs.push(r.orig.wrapping_add(rng.below(n as u64 + 3) as u16));
            }
        }
    }
    // addresses holding no statement: far inside user space, its last word; refused ones
    for _ in 0..rng.below(3) {
        addrs.push(*rng.pick(&[0xFDFFu16, 0xFDFE, 0xFE00, 0xFFFF, r.orig.wrapping_sub(1), r.orig.wrapping_add(0x100), 0x8000, 0x7FFF]));
    }
    // random order: the list sorts itself
    for i in (1..addrs.len()).rev() {
        let j = rng.below(i as u64 + 1) as usize;
        addrs.swap(i, j);
    }
    for a in &addrs {
        cmds.push(Cmd::BreakAdd(Loc::Addr(*a)));
        if in_user(*a as u32) {
            st.adds += 1;
        }
    }
    for (name, _) in &r.labels {
        if rng.chance(2, 3) {
            let off = if rng.chance(2, 3) { 0 } else { rng.range(-2, 3) as i32 };
            cmds.push(Cmd::BreakAdd(label_loc(name, off)));
            st.adds += 1;
        }
    }
    for _ in 0..rng.below(3) {
        if !addrs.is_empty() {
            cmds.push(Cmd::BreakRemove(Loc::Addr(*rng.pick(&addrs))));
        }
    }
    cmds.push(Cmd::BreakListB);
    st.lists += 1;
    if rng.chance(1, 3) {
        for _ in 0..1 + rng.below(3) {
            let a = r.orig.wrapping_add(rng.below(n as u64 + 2) as u16);
            cmds.push(if rng.chance(1, 2) { Cmd::BreakRemove(Loc::Addr(a)) } else { Cmd::BreakAdd(Loc::Addr(a)) });
        }
        cmds.push(Cmd::BreakListB);
        st.lists += 1;
    }
    cmds.push(Cmd::Exit);
    (make_case("B17", &sp, &r, vec![], cmds), st)
}

fn fixed_table_case(src: &str, orig: u16, texts: &[&str], labels: &[(&str, usize)], breaks: &[usize], extra: &[u16]) -> SrcCase {
    let n = texts.len() as u16;
    let mut cmds = vec![Cmd::BreakListB];
    for k in 0..n + 2 {
        let a = orig.wrapping_add(k);
        if a >= orig && a < 0xFE00 {
            cmds.push(Cmd::BreakAdd(Loc::Addr(a)));
        }
    }
    for a in extra {
        cmds.push(Cmd::BreakAdd(Loc::Addr(*a)));
    }
    cmds.push(Cmd::BreakListB);
    cmds.push(Cmd::Exit);
    SrcCase {
        tag: "B17",
        stack: false,
        fuel: 20_000,
        inp: vec![],
        src: src.to_string(),
        orig,
        texts: texts.iter().map(|t| t.to_string()).collect(),
        breaks: breaks.to_vec(),
        labels: labels.iter().map(|(l, k)| (l.to_string(), *k)).collect(),
        cmds,
    }
}

/// The shapes the table's columns distinguish, by hand.
pub fn c17_table_corpus() -> Vec<SrcCase> {
    let s27 = ".stringz \"abcdefghijklmnop\"";
    let s26 = ".stringz \"abcdefghijklmno\"";
    let w27 = ".stringz \"abcdefghijklmn\u{e9}\u{1f600}\"";
    let w28 = ".stringz \"abcdefghijklmn\u{e9}\u{1f600}z\"";
    let rep = |t: &'static str, k: usize| -> Vec<&'static str> { std::iter::repeat(t).take(k).collect() };
    let mut v = vec![
        // label cell: 12 characters fit, 13 do not; statement cell: 26 fit, 27 do not; a label
        // before a `.break` at the end of the file marks an address without a statement
        {
            let src = ".orig x3000\nstart add r0, r0, #1\na_very_long_label_name ld r1, a_very_long_label_name\ntwelve_chars and r0 , r0 ,   r0   ; comment\nthirteenchars .fill x0\n.break\nhalt\nlbl .break\n";
            fixed_table_case(
                src,
                0x3000,
                &["add r0, r0, #1", "ld r1, a_very_long_label_name", "and r0 , r0 ,   r0", ".fill x0", "halt"],
                &[("start", 0), ("a_very_long_label_name", 1), ("twelve_chars", 2), ("thirteenchars", 3), ("lbl", 5)],
                &[4, 5],
                &[0x3100, 0xFDFF],
            )
        },
        // no breakpoint at all, then every address
        fixed_table_case("halt\n", 0x3000, &["halt"], &[], &[], &[]),
        // a `.break` of the source beyond user space still gets its statement text
        fixed_table_case(".orig xFDFF\na add r0 r0 #0\nb add r0 r0 #1\n.break\nc halt\n", 0xFDFF, &["add r0 r0 #0", "add r0 r0 #1", "halt"], &[("a", 0), ("b", 1), ("c", 2)], &[2], &[]),
        // operands on several lines with a comment in between: the cell holds line breaks
        fixed_table_case("add r0,\n r1 ; c \u{e9}\n , r2\n.break\n.orig x5000\nlp ld r0 lp\n.break\n", 0x5000, &["add r0,\n r1 ; c \u{e9}\n , r2", "ld r0 lp"], &[("lp", 1)], &[1, 2], &[]),
    ];
    // multi-word directives: every word of the directive shows the directive; multi-byte
    // characters count as one character each, also at the cut-off position
    for (text, words) in [(s26, 16usize), (s27, 17), (w27, 17), (w28, 18)] {
        let src = format!(".orig x4000\nmsg: {}\nk .fill #-1\n", text);
        let mut texts = rep(text, words);
        texts.push(".fill #-1");
        v.push(fixed_table_case(&src, 0x4000, &texts, &[("msg", 0), ("k", words)], &[], &[]));
    }
    // one table holding a text of 26 one-byte characters (fits) next to shorter texts that are longer
    // in BYTES (2-, 3- and 4-byte characters: they fit as well)
    {
        let a = ".stringz \"abcdefghijklmno\"";
        let b = ".stringz \"\u{e4}\u{f6}\u{fc}\u{df}\u{e9}\u{e8}\u{ea}\u{eb}\u{e7}\u{f1}\u{e5}\"";
        let c = ".stringz \"\u{2192}\u{2190}\u{2191}\u{2193}\u{20ac}\u{221e}\u{2260}\u{2264}\"";
        let d = ".stringz \"\u{1f600}\u{1f601}\u{1f602}\u{1f603}\u{1f604}\"";
        let src = format!(".orig x4000\nm1 {}\nm2 {}\nm3 {}\nm4 {}\nk .fill #-1\n", a, b, c, d);
        let mut texts: Vec<&str> = Vec::new();
        let mut labels: Vec<(&str, usize)> = Vec::new();
        for (l, t, w) in [("m1", a, 16usize), ("m2", b, 12), ("m3", c, 9), ("m4", d, 6)] {
            labels.push((l, texts.len()));
            texts.extend(std::iter::repeat(t).take(w));
        }
        labels.push(("k", texts.len()));
        texts.push(".fill #-1");
        v.push(fixed_table_case(&src, 0x4000, &texts, &labels, &[], &[]));
    }
    // the image ends exactly at the top of memory, a label behind its last statement
    v.push(fixed_table_case(".orig xFFFC\nfirst halt\nbuf .blkw 1\nlast halt\ntail .break\n", 0xFFFC, &["halt", ".blkw 1", "halt"], &[("first", 0), ("buf", 1), ("last", 2), ("tail", 3)], &[3], &[]));
    // statements 0x8000 words and more after the first one
    v.push(far_case("B17", 0x3000, 0x8000, true));
    v.push(far_case("B17", 0x0001, 0xC000, true));
    v
}

/// Run a `B17` session on the real assembler + debugger in the normal output mode.
pub fn run_table(cap: &mut Capture, c: &SrcCase) -> String {
    let obs = crate::dbg::run_session_mode(cap, c.stack, c.fuel, &c.inp, c.src.clone(), c.script(), true);
    if !obs.line.contains('|') && obs.line != "panic" {
        return obs.line;
    }
    let tabs = crate::dbg::break_tables(&obs.err);
    let shown = if tabs.is_empty() { "-".to_string() } else { tabs.iter().map(|t| crate::cap::hex(t)).collect::<Vec<_>>().join(",") };
    format!("{} | {}", obs.line, shown)
}

pub fn run_c17(o: &crate::Opts) {
    let mut cap = Capture::install();
    let mut sink = crate::Sink::new(o);
    if let Some(path) = &o.replay {
        for line in std::fs::read_to_string(path).unwrap().lines() {
            if line.starts_with("B17 ") {
                match SrcCase::parse(line, "B17") {
                    Some(c) => sink.put(line, &run_table(&mut cap, &c)),
                    None => sink.put(line, "bad-request"),
                }
                continue;
            }
            match SrcCase::parse(line, "V17") {
                Some(c) => sink.put(line, &run_src(&mut cap, &c)),
                None => sink.put(line, "bad-request"),
            }
        }
        sink.finish(o, "{}");
        return;
    }
    let mut rng = Rng::new(o.seed.wrapping_mul(2654435761) ^ (o.shard as u64) << 32 ^ 0xC17);
    let total: u64 = if o.thorough { 20_000 } else { 640 };
    let per = total / o.nshards as u64;
    let mut heads: std::collections::BTreeMap<String, u64> = Default::default();
    let mut ops: std::collections::BTreeMap<String, u64> = Default::default();
    let mut samples = Vec::new();
    let (mut naddr, mut nlabels, mut ncorpus, mut high, mut byte0) = (0u64, 0u64, 0u64, 0u64, 0u64);
    if o.shard == 0 {
        for c in c17_corpus() {
            let line = run_src(&mut cap, &c);
            sink.put(&c.request(), &line);
            ncorpus += 1;
        }
    }
    // the breakpoint table (normal output mode)
    let (mut tcases, mut trenamed, mut tlong, mut tadds, mut tlists, mut tcorpus) = (0u64, 0u64, 0u64, 0u64, 0u64, 0u64);
    let mut row_labels_cut = 0u64;
    let mut row_lines_cut = 0u64;
    if o.shard == 0 {
        for c in c17_table_corpus() {
            let line = run_table(&mut cap, &c);
            sink.put(&c.request(), &line);
            tcorpus += 1;
        }
    }
    let ttotal: u64 = if o.thorough { 16_000 } else { 1_600 };
    for _ in 0..ttotal / o.nshards as u64 {
        let (c, st) = c17_table_session(&mut rng);
        let line = run_table(&mut cap, &c);
        tcases += 1;
        trenamed += st.renamed as u64;
        tlong += st.long_strings as u64;
        tadds += st.adds as u64;
        tlists += st.lists as u64;
        row_labels_cut += c.labels.iter().filter(|(l, _)| l.chars().count() > 12).count() as u64;
        row_lines_cut += c.texts.iter().filter(|t| t.chars().count() > 26).count() as u64;
        if samples.len() < 1 && rng.chance(1, 10) {
            samples.push(format!("{{\"table_source\":{:?},\"script\":{:?}}}", c.src, c.script()));
        }
        sink.put(&c.request(), &line);
    }
    for _ in 0..per {
        let (c, na, nl) = c17_session(&mut rng);
        let line = run_src(&mut cap, &c);
        naddr += na as u64;
        nlabels += nl as u64;
        if c.orig >= 0x8000 {
            high += 1;
        }
        if c.src.chars().next().map_or(false, |ch| ch.is_ascii_alphabetic() || ch == '.') {
            byte0 += 1;
        }
        for t in &c.texts {
            let op = t.split(|ch: char| !(ch.is_ascii_alphanumeric() || ch == '.')).next().unwrap_or("").to_ascii_lowercase();
            *ops.entry(op).or_default() += 1;
        }
        *heads.entry(line.split(' ').next().unwrap_or("").to_string()).or_default() += 1;
        if samples.len() < 2 && rng.chance(1, 20) {
            samples.push(format!("{{\"source\":{:?},\"labels\":{:?}}}", c.src, c.labels));
        }
        sink.put(&c.request(), &line);
    }
    let j = |m: &std::collections::BTreeMap<String, u64>| m.iter().map(|(k, v)| format!("\"{}\":{}", k, v)).collect::<Vec<_>>().join(",");
    let n_cases = sink.n;
    sink.finish(o, &format!("{{\"cases\":{},\"corpus\":{},\"addresses_shown\":{},\"labels_resolved\":{},\"origin_ge_8000\":{},\"token_at_byte_0\":{},\"words_by_statement\":{{{}}},\"outcomes\":{{{}}},\"table_sessions\":{},\"table_corpus\":{},\"table_labels_renamed_long\":{},\"table_long_stringz\":{},\"table_breakpoints_added\":{},\"table_break_lists\":{},\"table_labels_over_12_chars\":{},\"table_words_with_text_over_26_chars\":{},\"samples\":[{}]}}", n_cases, ncorpus, naddr, nlabels, high, byte0, j(&ops), j(&heads), tcases, tcorpus, trenamed, tlong, tadds, tlists, row_labels_cut, row_lines_cut, samples.join(",")));
}
