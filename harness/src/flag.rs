//! C18: the stack extension is gated by its feature flag, and only it.
//!
//! Three kinds of request, each answered for BOTH settings of the flag (or, in process mode, for
//! one way of giving `-f` on the command line):
//!
//! * `F18 <expect> <hex source>` — in-process assembler (`asm::observe_core`), answer
//!   `<observation, flag on> ## <observation, flag off>`.  `expect` is what the generator knows by
//!   construction: `same` (no stack mnemonic in token position: none at all, only inside comments
//!   and strings, only near-misses such as `pushy`, or only after `.end`), `reject` (a lexically
//!   valid text with push/pop/call/rets as an identifier token — instruction or label position,
//!   any letter case), `any` (texts with other errors as well).
//! * `R18 <minimal> <fuel> <stdin> <n> <origin> <words…>` — `from_raw` + `run` under a step budget
//!   (`run::run_case`), answer `<run, flag on> ## <run, flag off>`.
//! * `P18 <check|compile|run> <style> <hex -f value> <fuel> <stdin> <hex source>` — one real
//!   `lace` process; `style` is how the option is written: `N` absent, `S` `-f v`, `L`
//!   `--features v`, `E` `--features=v`, `J` `-fv`.  Answer
//!   `st=<status> out=<stdout> img=<bytes of out.lc3|absent|-> named=<stderr contains "stack", when st=1>`.
use crate::asm::AsmRunner;
use crate::asmgen::*;
use crate::cap::{hex, unhex};
use crate::cli::spawn;
use crate::prng::Rng;
use crate::progs::{add_imm, and_imm, gen_random_image, gen_structured};
use crate::run::{run_case, RunCase};
use std::collections::BTreeMap;
use std::path::{Path, PathBuf};

const P18_FUEL: u64 = 400_000;

// ------------------------------------------------------------------------------------ F18

fn obs_f18(runner: &mut AsmRunner, text: &str) -> String {
    let on = runner.observe(true, text, true);
    let off = runner.observe(false, text, true);
    format!("{} ## {}", on, off)
}

/// Identifiers that look like the four mnemonics but are not (labels to the lexer).
const NEAR: &[&str] = &[
    "pushx", "xpush", "pops", "ppop", "calls", "recall", "retss", "_push", "push_", "pop1", "1pop", "rpush", "r1pop",
    "xpop", "0xpop", "Xcall", "call_", "pu", "pus", "po", "cal", "rts", "pushpop", "poppush", "r7rets", "PUSHY", "Pop_",
    "stk", "push2", "rets0",
];

fn stmt(labels: &[String], op: &str, args: Vec<Operand>) -> Item {
    Item::Stmt { labels: labels.to_vec(), op: op.to_string(), args }
}

/// Index in `items` before which a new statement can be put so that the lexer reaches it
/// (i.e. not after `.end`, and not between a label-less... any statement boundary is fine).
fn insert_pos(rng: &mut Rng, p: &Prog) -> usize {
    let end = p.items.iter().position(|i| matches!(i, Item::End)).unwrap_or(p.items.len());
    rng.below(end as u64 + 1) as usize
}

fn a_label(rng: &mut Rng, p: &Prog) -> String {
    let mut names: Vec<String> = Vec::new();
    for it in &p.items {
        if let Item::Stmt { labels, .. } = it {
            names.extend(labels.iter().cloned());
        }
    }
    if names.is_empty() {
        "nowhere".into()
    } else {
        rng.pick(&names).clone()
    }
}

/// A statement that uses one of the four mnemonics as an instruction.
fn stack_instr(rng: &mut Rng, p: &Prog) -> Item {
    let r = Operand::Reg(rng.below(8) as u8);
    match rng.below(4) {
        0 => stmt(&[], "push", vec![r]),
        1 => stmt(&[], "pop", vec![r]),
        2 => stmt(&[], "call", vec![Operand::Label(a_label(rng, p))]),
        _ => stmt(&[], "rets", vec![]),
    }
}

/// A statement that uses one of the four mnemonics in LABEL position (definition).
fn stack_label_def(rng: &mut Rng) -> Item {
    let w = *rng.pick(STACK);
    let m = rand_case(rng, w);
    match rng.below(4) {
        0 => stmt(&[m], ".fill", vec![Operand::Imm(1)]),
        1 => stmt(&[m], "halt", vec![]),
        2 => stmt(&[m], "add", vec![Operand::Reg(0), Operand::Reg(0), Operand::Reg(0)]),
        _ => stmt(&[m], ".stringz", vec![Operand::Str("s".into())]),
    }
}

/// A statement that refers to one of the four mnemonics as if it were a label.
fn stack_label_ref(rng: &mut Rng) -> Item {
    let w = *rng.pick(STACK);
    let m = Operand::Label(rand_case(rng, w));
    let r = Operand::Reg(rng.below(8) as u8);
    match rng.below(6) {
        0 => stmt(&[], "lea", vec![r, m]),
        1 => stmt(&[], *rng.pick(BR), vec![m]),
        2 => stmt(&[], "jsr", vec![m]),
        3 => stmt(&[], "ld", vec![r, m]),
        4 => stmt(&[], "st", vec![r, m]),
        _ => stmt(&[], ".fill", vec![m]),
    }
}

fn stack_comment(rng: &mut Rng) -> String {
    let mut s = String::from(";");
    for _ in 0..1 + rng.below(4) {
        s.push(' ');
        let w = *rng.pick(STACK);
        s.push_str(&rand_case(rng, w));
        if rng.chance(1, 2) {
            s.push_str(" r1");
        }
    }
    s
}

/// (generator name, expectation, text)
pub fn gen_f18(seed: u64, idx: u64) -> (&'static str, &'static str, String) {
    let mut rng = Rng::new(seed.wrapping_mul(0x1000193).wrapping_add(idx).wrapping_mul(131) ^ 0xF18);
    let size = match rng.below(10) {
        0 => 1,
        1..=6 => 1 + rng.below(6) as usize,
        _ => 4 + rng.below(16) as usize,
    };
    let class = rng.below(100);
    if class >= 95 {
        let (_, _, text) = crate::asm::gen_case(seed ^ 0xF18, idx);
        return ("mutated", "any", text);
    }
    if class >= 90 {
        let p = gen_prog(&mut rng, &GenOpts { stmts: size, wild: true, stack: true });
        let ps = pieces(&mut rng, &p);
        return ("wild-with-stack", "any", layout(&mut rng, &ps));
    }
    let wild = (20..30).contains(&class);
    let mut p = gen_prog(&mut rng, &GenOpts { stmts: size, wild, stack: false });
    let (name, expect): (&'static str, &'static str) = match class {
        0..=19 => ("plain", "same"),
        20..=29 => ("plain-wild", "same"),
        30..=39 => {
            // the mnemonics inside strings (and, below, inside comments)
            for _ in 0..1 + rng.below(2) {
                let at = insert_pos(&mut rng, &p);
                let w = *rng.pick(STACK);
                let body = format!("{} r0{}", rand_case(&mut rng, w), if rng.chance(1, 2) { "\\n" } else { "" });
                p.items.insert(at, stmt(&[], ".stringz", vec![Operand::Str(body)]));
            }
            ("in-string-or-comment", "same")
        }
        40..=49 => {
            for _ in 0..1 + rng.below(3) {
                let at = insert_pos(&mut rng, &p);
                let w = *rng.pick(NEAR);
                let n = rand_case(&mut rng, w);
                let it = match rng.below(4) {
                    0 => stmt(&[n], ".fill", vec![Operand::Imm(7)]),
                    1 => stmt(&[], "lea", vec![Operand::Reg(1), Operand::Label(n)]),
                    2 => stmt(&[], "br", vec![Operand::Label(n)]),
                    _ => stmt(&[n], "not", vec![Operand::Reg(2), Operand::Reg(2)]),
                };
                p.items.insert(at, it);
            }
            ("near-miss", "same")
        }
        50..=64 => {
            for _ in 0..1 + rng.below(3) {
                let at = insert_pos(&mut rng, &p);
                let it = stack_instr(&mut rng, &p);
                p.items.insert(at, it);
            }
            ("instruction", "reject")
        }
        65..=74 => {
            let at = insert_pos(&mut rng, &p);
            p.items.insert(at, stack_label_def(&mut rng));
            ("label-definition", "reject")
        }
        75..=84 => {
            let at = insert_pos(&mut rng, &p);
            p.items.insert(at, stack_label_ref(&mut rng));
            ("label-reference", "reject")
        }
        _ => {
            // everything after `.end` is never looked at
            p.items.retain(|i| !matches!(i, Item::End));
            p.items.push(Item::End);
            for _ in 0..1 + rng.below(3) {
                let it = match rng.below(3) {
                    0 => stack_instr(&mut rng, &p),
                    1 => stack_label_def(&mut rng),
                    _ => stack_label_ref(&mut rng),
                };
                p.items.push(it);
            }
            ("after-end", "same")
        }
    };
    let ps = pieces(&mut rng, &p);
    let mut text = if rng.chance(1, 4) { layout_plain(&ps) } else { layout(&mut rng, &ps) };
    if name == "in-string-or-comment" || rng.chance(1, 10) {
        // comments that mention the mnemonics: at the very start, at line ends, at the very end
        if rng.chance(1, 2) {
            text = format!("{}\n{}", stack_comment(&mut rng), text);
        }
        if rng.chance(1, 2) {
            let lines: Vec<String> = text
                .split('\n')
                .map(|l| {
                    if !l.contains('"') && !l.contains(';') && rng.chance(1, 3) {
                        format!("{} {}", l, stack_comment(&mut rng))
                    } else {
                        l.to_string()
                    }
                })
                .collect();
            text = lines.join("\n");
        }
        if rng.chance(1, 2) {
            text.push_str(&format!("\n{}", stack_comment(&mut rng)));
        }
    }
    (name, expect, text)
}

/// Hand-written witnesses: run first, on shard 0.
fn corpus_f18() -> Vec<(&'static str, &'static str)> {
    vec![
        ("reject", "push r0"),
        ("reject", "PUSH r0"),
        ("reject", "PoP R1\nhalt"),
        ("reject", "rets"),
        ("reject", "call x\nx rets"),
        ("reject", "pop: halt"),
        ("reject", "br push"),
        ("reject", "push .fill x1"),
        ("reject", "lea r0 pop"),
        ("reject", "lea r0 pop\nhalt\npop .fill x0"),
        ("reject", "halt\nRETS .fill x0"),
        ("reject", ".fill call"),
        ("reject", ".stringz push"),
        ("reject", ".orig x3000\nhalt\ncall"),
        ("reject", "halt;c\npush"),
        ("reject", "rets;c"),
        ("reject", "halt\tpop\u{c}r1"),
        ("same", "add r0 r0 #1 ; push pop call rets"),
        ("same", "; push\nhalt"),
        ("same", ".stringz \"push r0\""),
        ("same", ".stringz \"\\\"pop\"\nhalt"),
        ("same", "pushy halt\nbr pushy"),
        ("same", "xpush halt\nxpop .fill x1\n0xcall halt\nr1rets halt"),
        ("same", "halt\n.end\npush r0"),
        ("same", ".END pop"),
        ("same", "pu sh r0"),
        ("same", "pop_ halt"),
        ("same", ".fill xD440\nhalt"),
        ("same", ""),
        ("same", "halt ;é push"),
        // other errors first: the lexer never gets to the mnemonic
        ("any", "é push r0"),
        ("any", ".fill\npush r0"),
        ("any", "\"abc\npush"),
        ("any", "push é"),
        ("any", "push push"),
    ]
}

// ------------------------------------------------------------------------------------ R18

struct RunPair {
    minimal: bool,
    fuel: u64,
    inp: Vec<u8>,
    image: Vec<u16>,
}

impl RunPair {
    fn request(&self) -> String {
        let mut s = format!("R18 {} {:x} {} {:x}", self.minimal as u8, self.fuel, hex(&self.inp), self.image.len());
        for w in &self.image {
            s.push_str(&format!(" {:04x}", w));
        }
        s
    }
    fn parse(line: &str) -> Option<RunPair> {
        let f: Vec<&str> = line.split_whitespace().collect();
        if f.len() < 5 || f[0] != "R18" {
            return None;
        }
        let n = usize::from_str_radix(f[4], 16).ok()?;
        let mut image = Vec::new();
        for k in 0..n {
            image.push(u16::from_str_radix(f.get(5 + k)?, 16).ok()?);
        }
        Some(RunPair { minimal: f[1] != "0", fuel: u64::from_str_radix(f[2], 16).ok()?, inp: unhex(f[3])?, image })
    }
    fn observe(&self, runner: &mut AsmRunner) -> String {
        let mk = |stack: bool| RunCase {
            stack,
            minimal: self.minimal,
            fuel: self.fuel,
            inp: self.inp.clone(),
            image: self.image.clone(),
        };
        let on = run_case(&mut runner.cap, &mk(true));
        let off = run_case(&mut runner.cap, &mk(false));
        format!("{} ## {}", on, off)
    }
}

fn img(orig: u16, words: &[u16]) -> Vec<u16> {
    std::iter::once(orig).chain(words.iter().copied()).collect()
}

/// One of the four stack instruction words, any operand bits.
fn stack_word(rng: &mut Rng) -> u16 {
    match rng.below(5) {
        0 => 0xD400 | (rng.below(8) as u16) << 6 | (rng.u16() & 0x023F), // PUSH, junk in the unused bits
        1 => 0xD000 | (rng.below(8) as u16) << 6 | (rng.u16() & 0x023F), // POP
        2 => 0xDC00 | (rng.below(4) as u16),                              // CALL, short forward offset
        3 => 0xD800 | (rng.u16() & 0x03FF),                               // RETS
        _ => 0xD000 | (rng.u16() & 0x0FFF),
    }
}

/// Word images built around raw opcode-0xD words; returns (kind, pair).
fn gen_r18(rng: &mut Rng) -> (&'static str, RunPair) {
    let orig = *rng.pick(&[0x3000u16, 0x3000, 0x0200, 0x0001, 0x8000, 0xF000, 0xFD00]);
    let alu = |rng: &mut Rng| add_imm(rng.below(7) as u16, rng.below(7) as u16, rng.range(-16, 15) as i16);
    let mut words: Vec<u16> = Vec::new();
    let pre = rng.below(4);
    for _ in 0..pre {
        words.push(alu(rng));
    }
    let kind: &'static str = match rng.below(12) {
        0 | 1 => {
            // reached: executed with the flag on, stops the VM with the flag off
            words.push(stack_word(rng));
            for _ in 0..rng.below(3) {
                words.push(alu(rng));
            }
            words.push(0xF025);
            for _ in 0..rng.below(3) {
                words.push(alu(rng));
            }
            "opD-reached"
        }
        2 => {
            // PUSH r ; alu ; POP r — a balanced pair
            let r = rng.below(7) as u16;
            words.push(0xD400 | r << 6);
            words.push(alu(rng));
            words.push(0xD000 | r << 6);
            words.push(0xF025);
            "push-pop"
        }
        3 => {
            // CALL f ; HALT ; f: alu ; RETS
            words.push(0xDC01);
            words.push(0xF025);
            words.push(alu(rng));
            words.push(0xD800);
            "call-rets"
        }
        4 | 5 => {
            // data behind HALT: never executed
            words.push(0xF025);
            for _ in 0..1 + rng.below(4) {
                words.push(stack_word(rng));
            }
            "opD-behind-halt"
        }
        6 => {
            // branched over: BRnzp +k ; k stack words ; HALT
            let k = 1 + rng.below(3) as u16;
            words.push(0x0E00 | k);
            for _ in 0..k {
                words.push(stack_word(rng));
            }
            words.push(0xF025);
            "opD-skipped"
        }
        7 => {
            // stored into the instruction stream at run time, then executed:
            //   LD r3,src ; ST r3,slot ; slot: alu ; HALT ; src: <stack word>
            words.push(0x2000 | 3 << 9 | 3); // LD r3, +3
            words.push(0x3000 | 3 << 9 | 0); // ST r3, +0
            words.push(alu(rng)); // slot
            words.push(0xF025);
            words.push(stack_word(rng)); // src
            "opD-stored-then-executed"
        }
        8 => {
            // present in the image but overwritten before it is reached:
            //   LD r3,src ; ST r3,slot ; slot: <stack word> ; HALT ; src: alu
            words.push(0x2000 | 3 << 9 | 3);
            words.push(0x3000 | 3 << 9 | 0);
            words.push(stack_word(rng));
            words.push(0xF025);
            words.push(alu(rng));
            "opD-overwritten-before-reached"
        }
        9 => {
            // loaded as data, used as an operand, never executed
            words.push(0x2000 | 2 << 9 | 2); // LD r2, +2
            words.push(add_imm(2, 2, 1));
            words.push(0xF025);
            words.push(stack_word(rng));
            "opD-as-data"
        }
        10 => {
            // in a loop: and r4,r4,#0 ; add r4,r4,#k ; L: <word> ; add r4,r4,#-1 ; BRp L ; HALT
            words.push(and_imm(4, 4, 0));
            words.push(add_imm(4, 4, 1 + rng.below(4) as i16));
            words.push(if rng.chance(1, 2) { 0xD440 } else { alu(rng) });
            words.push(add_imm(4, 4, -1));
            words.push(0x03FD); // BRp -3
            words.push(0xF025);
            "loop"
        }
        _ => {
            // every word a stack word
            for _ in 0..1 + rng.below(5) {
                words.push(stack_word(rng));
            }
            "all-opD"
        }
    };
    (kind, RunPair { minimal: rng.chance(3, 4), fuel: 3000, inp: vec![], image: img(orig, &words) })
}

fn corpus_r18() -> Vec<RunPair> {
    let mk = |orig: u16, words: &[u16]| RunPair { minimal: true, fuel: 5000, inp: vec![], image: img(orig, words) };
    vec![
        mk(0x3000, &[0xD440, 0xF025]),
        mk(0x3000, &[0xD440, 0xD080, 0xF025]),
        mk(0x3000, &[0xF025, 0xD440]),
        mk(0x3000, &[0xDC01, 0xF025, 0x1021, 0xD800]),
        mk(0x3000, &[0xD800]),
        mk(0x3000, &[0xD000]),
        mk(0x3000, &[0xDFFF]),
        mk(0x3000, &[0x0E01, 0xD440, 0xF025]),
        mk(0x3000, &[0x2603, 0x3600, 0x1021, 0xF025, 0xD440]),
        mk(0x3000, &[0x2603, 0x3600, 0xD440, 0xF025, 0x1021]),
        mk(0x3000, &[]),
        mk(0xFFFF, &[0xD440]),
        RunPair { minimal: true, fuel: 100, inp: vec![], image: vec![] },
        // R7 = 0 / 0xFFFF around PUSH / POP (D9)
        mk(0x3000, &[0x5FE0, 0xD440, 0xF025]),
        mk(0x3000, &[0x5FE0, 0x1FFF, 0xD040, 0xF025]),
    ]
}

// ------------------------------------------------------------------------------------ P18

#[derive(Clone)]
struct ProcCase {
    cmd: &'static str,
    style: char,
    value: String,
    inp: Vec<u8>,
    src: String,
}

impl ProcCase {
    fn request(&self) -> String {
        format!(
            "P18 {} {} {} {:x} {} {}",
            self.cmd,
            self.style,
            hex(self.value.as_bytes()),
            P18_FUEL,
            hex(&self.inp),
            hex(self.src.as_bytes())
        )
    }
    fn parse(line: &str) -> Option<ProcCase> {
        let f: Vec<&str> = line.split_whitespace().collect();
        if f.len() != 7 || f[0] != "P18" {
            return None;
        }
        let cmd = match f[1] {
            "check" => "check",
            "compile" => "compile",
            "run" => "run",
            "runobj" => "runobj",
            "debug" => "debug",
            _ => return None,
        };
        Some(ProcCase {
            cmd,
            style: f[2].chars().next()?,
            value: String::from_utf8(unhex(f[3])?).ok()?,
            inp: unhex(f[5])?,
            src: String::from_utf8(unhex(f[6])?).ok()?,
        })
    }
    /// the option as written BEFORE the subcommand
    fn global_args(&self) -> Vec<String> {
        match self.style {
            'G' | 'B' => vec!["-f".into(), self.value.clone()],
            _ => vec![],
        }
    }
    /// the option as written AFTER the subcommand and the file name
    fn flag_args(&self) -> Vec<String> {
        match self.style {
            'S' | 'B' => vec!["-f".into(), self.value.clone()],
            'L' => vec!["--features".into(), self.value.clone()],
            'E' => vec![format!("--features={}", self.value)],
            'J' => vec![format!("-f{}", self.value)],
            _ => vec![],
        }
    }
    /// `None` = timed out (not an observation).
    fn observe(&self, dir: &Path) -> Option<String> {
        std::fs::write(dir.join("f.asm"), &self.src).unwrap();
        let _ = std::fs::remove_file(dir.join("out.lc3"));
        if self.cmd == "runobj" {
            // set-up, not observed: the object file of the source, compiled with the feature
            let _ = std::fs::remove_file(dir.join("f.lc3"));
            let c = spawn(dir, &["compile", "f.asm", "f.lc3", "-f", "stack"], &[], 10_000);
            if c.status != Some(0) || !dir.join("f.lc3").exists() {
                return Some("st=nocompile".into());
            }
        }
        let mut args: Vec<String> = self.global_args();
        args.extend(match self.cmd {
            "runobj" => vec!["run".to_string(), "f.lc3".into(), "--minimal".into()],
            // the debugger attached and detached at once: by C09 (`quit` hands the program over) the
            // process behaves like `run`
            "debug" => vec!["debug".to_string(), "f.asm".into(), "--minimal".into(), "--command".into(), "quit".into()],
            "check" => vec!["check".to_string(), "f.asm".into()],
            "compile" => vec!["compile".to_string(), "f.asm".into(), "out.lc3".into()],
            _ => vec!["run".to_string(), "f.asm".into(), "--minimal".into()],
        });
        args.extend(self.flag_args());
        let argv: Vec<&str> = args.iter().map(|s| s.as_str()).collect();
        let o = spawn(dir, &argv, &self.inp, 10_000);
        let st = match o.status {
            Some(101) => return Some("st=panic".into()),
            Some(c) => c,
            None => return None,
        };
        let img = if self.cmd == "compile" {
            match std::fs::read(dir.join("out.lc3")) {
                Ok(b) => hex(&b),
                Err(_) => "absent".into(),
            }
        } else {
            "-".into()
        };
        let named = if st == 1 {
            if String::from_utf8_lossy(&o.stderr).contains("stack") { "1" } else { "0" }
        } else {
            "-"
        };
        Some(format!("st={} out={} img={} named={}", st, hex(&o.stdout), img, named))
    }
}

/// Terminating programs: with / without the mnemonics, raw opcode-0xD words reached or not.
const P_SOURCES: &[&str] = &[
    "add r0 r0 #1\nhalt\n",
    "push r0\npop r1\nhalt\n",
    "call f\nhalt\nf rets\n",
    "PUSH R3\nhalt\n",
    "lea r0 pop\nhalt\npop .fill x0\n",
    "rets\n",
    ".fill xD440\nhalt\n",
    "halt\n.fill xD440\n",
    "and r0 r0 #0 ; push pop call rets\nhalt\n",
    "lea r0 msg\nputs\nhalt\nmsg .stringz \"push pop\"\n",
    "ld r3 w\nst r3 slot\nslot .fill x0\nhalt\nw .fill xD440\n",
    "br skip\n.fill xDC01\nskip halt\n",
    "pushy add r0 r0 #1\nbrn pushy\nhalt\n",
    "halt\n.end\npush r0\n",
];

const P_FLAGS: &[(char, &str)] = &[
    ('N', ""),
    ('S', "stack"),
    ('S', ""),
    ('S', "stack,stack"),
    ('S', "foo"),
    ('L', "stack"),
    ('E', "stack"),
    ('J', "stack"),
    ('S', ",stack,"),
    ('S', "Stack"),
    ('S', "stack,foo"),
    ('L', ""),
    ('S', ",,"),
    ('E', "stack,,stack"),
    ('S', " stack"),
    ('S', "stack,stack,foo"),
    ('S', "foo,stack,stack"),
    // before the subcommand (`lace -f stack run f.asm`), and both before and after it
    ('G', "stack"),
    ('B', "stack"),
    ('G', ""),
    ('G', "foo"),
    ('G', "stack,stack"),
];

const P_CMDS: &[&str] = &["compile", "run", "check", "runobj", "debug"];

fn proc_cases(o: &crate::Opts) -> Vec<(&'static str, ProcCase)> {
    let mut v: Vec<(&'static str, ProcCase)> = Vec::new();
    let mk = |cmd: &'static str, f: &(char, &str), src: &str| ProcCase {
        cmd,
        style: f.0,
        value: f.1.to_string(),
        inp: vec![],
        src: src.to_string(),
    };
    // every source x {option absent, -f stack} x every command
    for src in P_SOURCES {
        for f in &P_FLAGS[..2] {
            for cmd in P_CMDS {
                v.push(("sources", mk(cmd, f, src)));
            }
        }
    }
    // the option BEFORE the subcommand used to be parsed and then dropped: every source again
    for src in P_SOURCES {
        for cmd in P_CMDS {
            v.push(("option-before-subcommand", mk(cmd, &('G', "stack"), src)));
        }
    }
    // every way of writing the option x every command, on a program without and one with the mnemonics
    let nsrc = if o.thorough { P_SOURCES.len() } else { 2 };
    for f in &P_FLAGS[2..] {
        for cmd in P_CMDS {
            for src in &P_SOURCES[..nsrc] {
                v.push(("option-spellings", mk(cmd, f, src)));
            }
        }
    }
    // generated sources (check / compile only: they need not terminate)
    let n_gen: u64 = if o.thorough { 3000 } else { 36 };
    let mut rng = Rng::new(o.seed.wrapping_mul(7907) ^ 0x9180);
    for k in 0..n_gen {
        let (_, _, text) = gen_f18(o.seed ^ 0x9180, k);
        if text.contains("stack") {
            continue; // the word must not come from the source snippet in the diagnostic
        }
        let f = if rng.chance(1, 2) { &P_FLAGS[0] } else { &P_FLAGS[1] };
        let cmd = if rng.chance(1, 2) { "compile" } else { "check" };
        v.push(("generated", mk(cmd, f, &text)));
    }
    v
}

// ------------------------------------------------------------------------------------ driver

struct Scratch(PathBuf);
impl Drop for Scratch {
    fn drop(&mut self) {
        let _ = std::fs::remove_dir_all(&self.0);
    }
}

fn scratch(o: &crate::Opts) -> Scratch {
    let p = PathBuf::from(&o.out).join(format!("c18-files-{}-{}", o.shard, std::process::id()));
    let _ = std::fs::remove_dir_all(&p);
    std::fs::create_dir_all(&p).unwrap();
    Scratch(std::fs::canonicalize(&p).unwrap_or(p))
}

fn json_escape(s: &str) -> String {
    let mut o = String::new();
    for c in s.chars() {
        match c {
            '"' => o.push_str("\\\""),
            '\\' => o.push_str("\\\\"),
            '\n' => o.push_str("\\n"),
            '\r' => o.push_str("\\r"),
            '\t' => o.push_str("\\t"),
            c if (c as u32) < 0x20 => o.push_str(&format!("\\u{:04x}", c as u32)),
            c => o.push(c),
        }
    }
    o
}

pub fn run(o: &crate::Opts) {
    let mut runner = AsmRunner::new();
    let mut sink = crate::Sink::new(o);
    let dir = scratch(o);
    if let Some(path) = &o.replay {
        for line in std::fs::read_to_string(path).unwrap().lines() {
            let f: Vec<&str> = line.split_whitespace().collect();
            let obs: Option<String> = match f.first().copied() {
                Some("F18") if f.len() == 3 => {
                    unhex(f[2]).and_then(|b| String::from_utf8(b).ok()).map(|t| obs_f18(&mut runner, &t))
                }
                Some("R18") => RunPair::parse(line).map(|c| c.observe(&mut runner)),
                Some("P18") => ProcCase::parse(line).map(|c| c.observe(&dir.0).unwrap_or_else(|| "st=timeout".into())),
                _ => None,
            };
            sink.put(line, &obs.unwrap_or_else(|| "bad-request".into()));
        }
        sink.finish(o, "{}");
        return;
    }
    let mut gens: BTreeMap<String, u64> = BTreeMap::new();
    let mut expects: BTreeMap<String, u64> = BTreeMap::new();
    let mut samples: Vec<String> = Vec::new();
    let (mut n_f, mut n_r, mut n_p, mut timeouts) = (0u64, 0u64, 0u64, 0u64);

    // --- assembler, both settings
    let mut do_f = |runner: &mut AsmRunner, sink: &mut crate::Sink, gen: &str, expect: &str, text: &str| {
        let obs = obs_f18(runner, text);
        *gens.entry(format!("asm:{gen}")).or_insert(0) += 1;
        *expects.entry(expect.to_string()).or_insert(0) += 1;
        if samples.len() < 3 && text.len() < 120 && sink.n % 97 == 5 {
            samples.push(format!(
                "{{\"generator\":\"{}\",\"expect\":\"{}\",\"text\":\"{}\",\"observed\":\"{}\"}}",
                gen,
                expect,
                json_escape(text),
                json_escape(&obs.chars().take(140).collect::<String>())
            ));
        }
        sink.put(&format!("F18 {} {}", expect, hex(text.as_bytes())), &obs);
    };
    if o.shard == 0 {
        for (expect, text) in corpus_f18() {
            do_f(&mut runner, &mut sink, "corpus", expect, text);
            n_f += 1;
        }
    }
    let total_f: u64 = if o.thorough { 400_000 } else { 8_000 };
    for idx in 0..total_f {
        if (idx as usize) % o.nshards != o.shard {
            continue;
        }
        let (gen, expect, text) = gen_f18(o.seed, idx);
        do_f(&mut runner, &mut sink, gen, expect, &text);
        n_f += 1;
    }

    // --- whole-image runs, both settings
    let mut rng = Rng::new(o.seed.wrapping_mul(1000003) ^ (o.shard as u64) << 32 ^ 0xC18);
    if o.shard == 0 {
        for c in corpus_r18() {
            let obs = c.observe(&mut runner);
            sink.put(&c.request(), &obs);
            *gens.entry("run:corpus".into()).or_insert(0) += 1;
            n_r += 1;
        }
    }
    let total_r: u64 = if o.thorough { 120_000 } else { 3_200 };
    for k in 0..total_r / o.nshards as u64 {
        let (kind, c): (&'static str, RunPair) = match k % 4 {
            0 | 1 => gen_r18(&mut rng),
            2 => {
                let p = gen_structured(&mut rng);
                (p.kind, RunPair { minimal: p.minimal, fuel: 20000, inp: p.inp.clone(), image: img(p.orig, &p.words) })
            }
            _ => {
                let p = gen_random_image(&mut rng);
                ("random-image", RunPair { minimal: true, fuel: 3000, inp: p.inp.clone(), image: img(p.orig, &p.words) })
            }
        };
        let obs = c.observe(&mut runner);
        if samples.len() < 5 && k % 53 == 7 {
            samples.push(format!(
                "{{\"kind\":\"{}\",\"image_words\":{},\"observed_on\":\"{}\",\"observed_off\":\"{}\"}}",
                kind,
                c.image.len(),
                obs.split(" ## ").next().unwrap_or("").split(' ').take(2).collect::<Vec<_>>().join(" "),
                obs.split(" ## ").nth(1).unwrap_or("").split(' ').take(2).collect::<Vec<_>>().join(" ")
            ));
        }
        *gens.entry(format!("run:{kind}")).or_insert(0) += 1;
        sink.put(&c.request(), &obs);
        n_r += 1;
    }

    // --- real processes
    for (i, (kind, c)) in proc_cases(o).into_iter().enumerate() {
        if i % o.nshards != o.shard {
            continue;
        }
        match c.observe(&dir.0) {
            Some(obs) => {
                if samples.len() < 7 && i % 37 == 3 {
                    samples.push(format!(
                        "{{\"command\":\"lace {} {}\",\"source\":\"{}\",\"observed\":\"{}\"}}",
                        c.cmd,
                        json_escape(&format!("{} {}", c.global_args().join(" "), c.flag_args().join(" "))),
                        json_escape(&c.src.chars().take(60).collect::<String>()),
                        json_escape(&obs.chars().take(40).collect::<String>())
                    ));
                }
                *gens.entry(format!("proc:{kind}:{}", c.cmd)).or_insert(0) += 1;
                sink.put(&c.request(), &obs);
                n_p += 1;
            }
            None => timeouts += 1,
        }
    }

    let show = |m: &BTreeMap<String, u64>| {
        m.iter().map(|(k, v)| format!("\"{}\":{}", json_escape(k), v)).collect::<Vec<_>>().join(",")
    };
    let stats = format!(
        "{{\"cases\":{},\"assembler_pairs\":{},\"run_pairs\":{},\"process_spawns\":{},\"process_timeouts\":{},\"generators\":{{{}}},\"assembler_expectations\":{{{}}},\"samples\":[{}]}}",
        sink.n,
        n_f,
        n_r,
        n_p,
        timeouts,
        show(&gens),
        show(&expects),
        samples.join(",")
    );
    sink.finish(o, &stats);
}
