//! `lvh` — lace verification harness.
//!
//! `lvh <property> --out <dir> --shard i/n --tier quick|thorough --seed N`
//! writes `<dir>/<property>.<i>.req` (one request line per case, for the Lean model driver) and
//! `<dir>/<property>.<i>.impl` (what the real lace code did on the same case), plus
//! `<dir>/<property>.<i>.stats` (JSON: distribution of what was generated).
mod asm;
mod asmgen;
mod cap;
mod cli;
mod dbg;
mod edit;
mod enc;
mod flag;
mod evl;
mod cmd;
mod prng;
mod progs;
mod run;
mod tty;
mod vm;
pub mod watch;

use std::fs::File;
use std::io::{BufWriter, Write};

pub struct Opts {
    pub prop: String,
    pub out: String,
    pub shard: usize,
    pub nshards: usize,
    pub thorough: bool,
    pub seed: u64,
    pub replay: Option<String>,
}

fn parse_opts() -> Opts {
    let args: Vec<String> = std::env::args().collect();
    let mut o = Opts {
        prop: args.get(1).cloned().unwrap_or_default(),
        out: ".".into(),
        shard: 0,
        nshards: 1,
        thorough: false,
        seed: 1,
        replay: None,
    };
    let mut i = 2;
    while i < args.len() {
        match args[i].as_str() {
            "--out" => { o.out = args[i + 1].clone(); i += 1; }
            "--shard" => {
                let (a, b) = args[i + 1].split_once('/').expect("i/n");
                o.shard = a.parse().unwrap();
                o.nshards = b.parse().unwrap();
                i += 1;
            }
            "--tier" => { o.thorough = args[i + 1] == "thorough"; i += 1; }
            "--seed" => { o.seed = args[i + 1].parse().unwrap_or(1); i += 1; }
            "--replay" => { o.replay = Some(args[i + 1].clone()); i += 1; }
            other => panic!("unknown option {other}"),
        }
        i += 1;
    }
    o
}

pub struct Sink {
    pub req: BufWriter<File>,
    pub imp: BufWriter<File>,
    pub n: u64,
}

impl Sink {
    pub fn new(o: &Opts) -> Sink {
        let base = format!("{}/{}.{}", o.out, o.prop, o.shard);
        Sink {
            req: BufWriter::new(File::create(format!("{base}.req")).unwrap()),
            imp: BufWriter::new(File::create(format!("{base}.impl")).unwrap()),
            n: 0,
        }
    }
    pub fn put(&mut self, req: &str, imp: &str) {
        writeln!(self.req, "{}", req).unwrap();
        writeln!(self.imp, "{}", imp).unwrap();
        self.n += 1;
    }
    pub fn finish(mut self, o: &Opts, stats: &str) {
        self.req.flush().unwrap();
        self.imp.flush().unwrap();
        std::fs::write(format!("{}/{}.{}.stats", o.out, o.prop, o.shard), stats).unwrap();
    }
}

fn main() {
    std::panic::set_hook(Box::new(|_| {}));
    let o = parse_opts();
    watch::start(&o.out, &o.prop, o.shard as u32);
    match o.prop.as_str() {
        "C02" => vm::run(&o),
        "C03" => run::run(&o),
        "C03T" => tty::run(&o),
        "C06" => cli::run_c06(&o),
        "C09" => dbg::run_c09(&o),
        "C10" => dbg::run_prop(&o, "D10"),
        "C11" => dbg::run_prop(&o, "D11"),
        "C12" => dbg::run_prop(&o, "D12"),
        "C13" => dbg::run_prop(&o, "D13"),
        "C16" => dbg::run_prop(&o, "D16"),
        "C07" => cli::run_c07(&o),
        "C08" => cli::run_c08(&o),
        "C20" => edit::run(&o),
        "C20T" => edit::run_tty(&o),
        "C14" => cmd::run(&o),
        "C05" => asm::run(&o),
        "C19" => asm::run_seq(&o),
        "C19W" => cli::run_c19w(&o),
        "C09P" => cli::run_c09p(&o),
        "C01" | "C04" => enc::run(&o),
        "C18" => flag::run(&o),
        "C15" => evl::run_c15(&o),
        "C17" => evl::run_c17(&o),
        other => {
            eprintln!("unknown property {other}");
            std::process::exit(2);
        }
    }
}
