//! C14: the debugger command language — `Command::try_from` on single lines (`L14`) and the
//! whole read–trim–parse loop over (argument, stdin) (`R14`).
//!
//! Request lines:
//!   `L14 <hex line>`                      one already-split, already-trimmed line
//!   `R14 <N | hex argument> <hex stdin>`  `N` = no `--command` argument
//! Observation lines:
//!   `ok <command> | err | exit <c> | panic`
//!   `<eof | exit <c> | panic> <#err> : <event> | <event> …`   (event = `err` or a command)
use crate::cap::{hex, unhex, Capture};
use crate::prng::Rng;
use crate::vm::{guarded, Outcome};
use std::cell::RefCell;

// ------------------------------------------------------------------ running the real code

fn run_line(line: &str) -> String {
    let mut res = String::new();
    let outcome = guarded(|| res = lace::verif::verif_parse_line(line));
    match outcome {
        Outcome::Ok => res,
        Outcome::Exit(code) => format!("exit {}", code),
        Outcome::Fuel => "fuel".into(),
        Outcome::Panic(_) => "panic".into(),
    }
}

fn run_session(cap: &mut Capture, argument: Option<&str>, stdin: &[u8]) -> String {
    cap.set_stdin(stdin);
    cap.begin();
    let events: RefCell<Vec<String>> = RefCell::new(Vec::new());
    let arg = argument.map(|s| s.to_string());
    let outcome = guarded(|| lace::verif::verif_read_all(arg, &events));
    let _ = cap.end();
    cap.drain_stdin();
    let ending = match outcome {
        Outcome::Ok => "eof".to_string(),
        Outcome::Exit(code) => format!("exit {}", code),
        Outcome::Fuel => "fuel".into(),
        Outcome::Panic(_) => "panic".into(),
    };
    let events = events.into_inner();
    let nerr = events.iter().filter(|e| e.as_str() == "err").count();
    let mut s = format!("{} {} :", ending, nerr);
    if !events.is_empty() {
        s.push(' ');
        s.push_str(&events.join(" | "));
    }
    s
}

pub enum Case {
    Line(String),
    Session(Option<String>, Vec<u8>),
}

impl Case {
    pub fn request(&self) -> String {
        match self {
            Case::Line(l) => format!("L14 {}", hex(l.as_bytes())),
            Case::Session(a, b) => format!(
                "R14 {} {}",
                match a {
                    None => "N".to_string(),
                    Some(a) => hex(a.as_bytes()),
                },
                hex(b)
            ),
        }
    }
    pub fn parse(line: &str) -> Option<Case> {
        let f: Vec<&str> = line.split_whitespace().collect();
        match f.as_slice() {
            ["L14", l] => Some(Case::Line(String::from_utf8(unhex(l)?).ok()?)),
            ["R14", a, b] => {
                let a = if *a == "N" { None } else { Some(String::from_utf8(unhex(a)?).ok()?) };
                Some(Case::Session(a, unhex(b)?))
            }
            _ => None,
        }
    }
    pub fn run(&self, cap: &mut Capture) -> String {
        match self {
            Case::Line(l) => run_line(l),
            Case::Session(a, b) => run_session(cap, a.as_deref(), b),
        }
    }
}

// ------------------------------------------------------------------ generators

/// The 16-symbol alphabet of the exhaustive sweep.
const ALPHABET: [char; 16] =
    ['+', '-', '#', '0', '1', '7', '9', 'a', 'f', 'g', 'x', 'o', 'b', '^', 'r', '_'];
/// The token is substituted for `{}`.
const TEMPLATES: [&str; 5] = ["move r1 {}", "goto {}", "break add {}", "step into {}", "print {}"];

/// Every command word of `name.rs`: names, aliases, misspellings, sub-command words.
const WORDS: &[&str] = &[
    "h", "help", "--help", "-h", ":h", "man", "info", "wtf", "c", "continue", "cont", "con", "proceed",
    "p", "print", "get", "show", "display", "put", "puts", "out", "m", "move", "set", "mov", "mv",
    "assign", "r", "registers", "reg", "dump", "register", "regs", "g", "goto", "jump", "call", "go",
    "go-to", "jsr", "jsrr", "br", "brn", "brz", "brp", "brnz", "brnp", "brzp", "brnzp", "a", "assembly",
    "asm", "source", "src", "ass", "inspect", "e", "eval", "evil", "evaluate", "run", "exec", "execute",
    "sim", "simulate", "instruction", "instr", "z", "reset", "restart", "refresh", "reboot", "echo", "q",
    "quit", "x", "exit", ":q", ":wq", "^C", "halt", "end", "stop", "next", "step-over", "stepover", "si",
    "stepinto", "into", "in", "stepin", "step-into", "step-in", "stepi", "step-i", "sin", "so", "stepout",
    "finish", "fin", "step-out", "stepo", "step-o", "sout", "bl", "breaklist", "break-list", "break-ls",
    "blist", "bls", "bp", "breakpoint", "breakpointlist", "breakpoint-list", "ba", "breakadd", "break-add",
    "badd", "breakpointadd", "breakpoint-add", "breakremove", "break-remove", "break-rm", "bremove", "brm",
    "breakpointremove", "breakpoint-remove", "step", "s", "b", "break",
    // not in any table
    "sudo", "foo", "hel", "helpp", "stepp", "brea",
];
/// Sub-command words (after `step` / `s` / `break` / `b`).
const SUBWORDS: &[&str] = &[
    "next", "i", "into", "in", "o", "out", "finish", "fin", "l", "list", "print", "show", "display", "dump",
    "ls", "a", "add", "set", "move", "r", "remove", "delete", "rm", "x", "5", "r1",
];
const ARGS: &[&str] = &["r1", "x3000", "5", "foo+1", "^2", "-1", "bogus!", "R7", "0", "#-3", "lbl", "^"];

fn cases3(w: &str) -> [String; 3] {
    let mixed: String = w
        .chars()
        .enumerate()
        .map(|(i, c)| if i % 2 == 0 { c.to_ascii_uppercase() } else { c.to_ascii_lowercase() })
        .collect();
    [w.to_string(), w.to_ascii_uppercase(), mixed]
}

fn digits_in(mut m: u128, radix: u32) -> String {
    if m == 0 {
        return "0".into();
    }
    let mut v = Vec::new();
    while m > 0 {
        v.push(std::char::from_digit((m % radix as u128) as u32, radix).unwrap());
        m /= radix as u128;
    }
    v.iter().rev().collect()
}

/// Boundary-directed literals: every magnitude × radix × sign/prefix placement.
fn boundary_tokens() -> Vec<String> {
    let mut mags: Vec<u128> = Vec::new();
    for c in [1u128 << 15, 1 << 16, 1 << 31, 1 << 32] {
        for d in -2i64..=2 {
            mags.push((c as i128 + d as i128) as u128);
        }
    }
    mags.extend([0u128, 1, 7, 8, 9, 10, 15, 16, 255, 256, 214748364, 214748365, 2147483640, 2147483650,
        99999999999999999999, 18446744073709551615, 18446744073709551616, 12345678901234567890]);
    let mut out = Vec::new();
    for &m in &mags {
        for (radix, pfx) in [(2u32, "b"), (8, "o"), (10, "#"), (10, ""), (16, "x")] {
            let d = digits_in(m, radix);
            let mut prefixes: Vec<String> = vec![pfx.to_string()];
            if !pfx.is_empty() && pfx != "#" {
                prefixes.push(pfx.to_ascii_uppercase());
                prefixes.push(format!("0{}", pfx));
                prefixes.push(format!("0{}", pfx.to_ascii_uppercase()));
                prefixes.push(format!("00{}", pfx));
            }
            if pfx == "#" {
                prefixes.push("0#".into());
            }
            if pfx.is_empty() {
                prefixes.push("0".into());
                prefixes.push("00".into());
            }
            for p in &prefixes {
                for (s1, s2) in [("", ""), ("-", ""), ("+", ""), ("", "-"), ("", "+"), ("-", "-"), ("+", "-"), ("--", "")] {
                    // (leading zeros: none, a few, and more than any integer type has bits or digits)
                    for zeros in ["", "000", "000000000000000000000000000000000", "0000000000000000000000000000000000000000000000000000000000000000000"] {
                        out.push(format!("{s1}{p}{s2}{zeros}{d}"));
                    }
                }
            }
            if radix == 16 {
                out.push(format!("x{}", d.to_ascii_uppercase()));
                out.push(format!("x{}g", d));
                out.push(format!("0x{}g", d));
            }
        }
    }
    out
}

const BOUNDARY_TEMPLATES: [&str; 9] = [
    "move r1 {}", "goto {}", "break add {}", "step into {}", "print {}", "goto ^{}", "goto lbl{}",
    "assembly lbl+{}", "move {} {}",
];

/// Characters for the random long tokens.
const WILD: &[char] = &[
    '+', '-', '#', '0', '1', '7', '9', 'a', 'f', 'g', 'x', 'o', 'b', '^', 'r', '_', 'R', 'X', 'Z', '8', ' ',
    ' ', '\t', '\u{00A0}', '\u{2003}', '\u{3000}', '\u{0085}', '\u{1680}', '\u{200B}', 'é', 'ß', '😀', '€',
    '!', '@', ',', '.', '\r', '\u{000B}', '\u{000C}', '\u{2028}', '\u{FEFF}',
];

fn rust_trim_nonempty(s: &str) -> Option<String> {
    let t = s.trim();
    if t.is_empty() { None } else { Some(t.to_string()) }
}

fn random_line(rng: &mut Rng) -> String {
    let heads = ["move r1", "goto", "break add", "step into", "print", "eval", "echo", "m", "p", "assembly",
        "br", "b r", "s i", "help", "move", ""];
    loop {
        let mut s = String::from(*rng.pick(&heads));
        if !s.is_empty() {
            s.push(' ');
        }
        let n = rng.range(1, 14);
        for _ in 0..n {
            s.push(*rng.pick(WILD));
        }
        if let Some(t) = rust_trim_nonempty(&s) {
            return t;
        }
    }
}

/// Lines used to build scripts: valid commands, invalid ones, blank ones, padded ones.
const PIECES: &[&str] = &[
    "help", "step", "s i 3", "step into", "step out", "continue", "registers", "print r3", "p x3000",
    "move r1 5", "move x3001 -1", "m r0 xffff", "goto x3000", "g foo", "goto lbl+2", "goto ^-1", "assembly",
    "a ^2", "eval add r0, r0, #1", "eval  ld r1, x  ", "echo hello  world", "reset", "quit", "exit", "break list",
    "b l", "break add x3000", "ba lbl", "break remove ^", "br x3001", "bl",
    // rejected lines
    "bogus", "move r1", "move r1 2147483648", "move r1 65536", "goto r1", "print", "break", "break ts",
    "step foo", "p 0x", "goto -1", "print r1 r2", "eval", "echo", "stepp", "hel p", "con", "mov r1 1",
    // blank / padded / non-ASCII
    "", " ", "   ", "\t", "\u{00A0}", "  help  ", "\thelp\t", "\u{2003}quit\u{3000}", "help\r",
    "echo a\rb", "print\rr1", "echo x\r", "\rhelp", "move r1 5\r",
    "echo é😀 ß", "print é", "eval \u{00A0}add\u{00A0}", "p\u{00A0}r1", "help\tme", " move   r2    #-07 ",
];

fn random_script(rng: &mut Rng) -> Vec<String> {
    let n = rng.range(0, 6) as usize;
    let mut v = Vec::new();
    for _ in 0..n {
        if rng.chance(1, 6) {
            // a fresh random line without separators
            v.push(random_line(rng).replace([';', '\n'], ""));
        } else {
            v.push(rng.pick(PIECES).to_string());
        }
    }
    v
}

fn join(lines: &[String], sep: &dyn Fn(usize) -> char, trailing: bool) -> String {
    let mut s = String::new();
    for (i, l) in lines.iter().enumerate() {
        if i > 0 {
            s.push(sep(i));
        }
        s.push_str(l);
    }
    if trailing && !lines.is_empty() {
        s.push(sep(lines.len()));
    }
    s
}

/// Every split of one script between argument and stdin, with `;` / newline / mixed separators.
fn script_cases(lines: &[String], rng: &mut Rng, out: &mut Vec<Case>) {
    let mask = rng.next();
    let seps: [Box<dyn Fn(usize) -> char>; 3] = [
        Box::new(|_| ';'),
        Box::new(|_| '\n'),
        Box::new(move |i| if (mask >> (i % 64)) & 1 == 1 { ';' } else { '\n' }),
    ];
    for sep in seps.iter() {
        for trailing in [false, true] {
            // whole script through stdin only / argument only
            let whole = join(lines, sep, trailing);
            out.push(Case::Session(None, whole.clone().into_bytes()));
            out.push(Case::Session(Some(whole), Vec::new()));
            for k in 0..=lines.len() {
                let a = join(&lines[..k], sep, trailing);
                let b = join(&lines[k..], sep, trailing);
                out.push(Case::Session(Some(a), b.into_bytes()));
            }
        }
    }
}

/// Minimised witnesses of the defects found in the original tree and of every disagreement
/// found since; they run first.
pub fn corpus() -> Vec<Case> {
    let mut v = Vec::new();
    // D24: i32 overflow in `integer += digit` (radix 10 only)
    for l in ["move r1 2147483648", "move r1 2147483649", "move r1 -2147483648", "move r1 #2147483649",
        "move r1 +#2147483648", "move r1 #-2147483649", "goto 2147483648", "break add ^2147483648",
        "step into 02147483648", "goto lbl+2147483649", "print 2147483648", "move r1 2147483647",
        "move r1 2147483650", "move r1 x7fffffff", "move r1 x80000000", "move r1 o17777777777",
        "move r1 o20000000000", "move r1 b1111111111111111111111111111111",
        "move r1 b10000000000000000000000000000000"]
    {
        v.push(Case::Line(l.into()));
    }
    // `print` with no argument: documented default PC (was MissingArgument)
    for l in ["print", "p", "PRINT", "print ^", "print  x"] {
        v.push(Case::Line(l.into()));
    }
    // K1: sudo
    for l in ["sudo", "sudo rm -rf", "SUDO", "sudo\tx", "sudox"] {
        v.push(Case::Line(l.into()));
    }
    // lines outside the domain of `Command::try_from` (the readers never produce them):
    // model and implementation must still agree on the panic
    for l in ["", " ", "help;", "move r1 ;", "a\nb", ";"] {
        v.push(Case::Line(l.into()));
    }
    // digit-run overflow seen before a later non-digit
    for l in ["goto xfffffffffg", "goto xfg", "goto x7fffffffg", "goto x80000000g", "print b2", "print o8"] {
        v.push(Case::Line(l.into()));
    }
    // documented forms
    for l in ["p 0", "p -0", "p +0", "p 00", "p 007", "p 0x", "p x", "p x-", "p -x", "p 0x-1", "p x+4", "p -#2",
        "p #-03", "p 0#2", "p #", "p 00x4", "p --1", "p +-1", "p 0-1", "p 1-1", "goto ^", "goto ^^", "goto ^x",
        "goto ^-", "goto foo+", "goto foo-x", "goto foo+-1", "goto foo+32767", "goto foo+32768", "goto foo-32768",
        "goto foo-32769", "goto ^32767", "goto ^32768", "goto ^-32768", "goto ^-32769", "goto 65535", "goto 65536",
        "move r1 -32768", "move r1 -32769", "move r1 65535", "move r1 65536", "si 0", "si -1", "si 65536", "si",
        "print r1a", "print r1@", "goto r1", "goto r8", "goto r1@", "print R7", "print r", "goto b101", "goto o17",
        "goto xbeef", "goto beef", "goto _x", "goto é", "goto aé", "print", "a", "assembly ^0 x"]
    {
        v.push(Case::Line(l.into()));
    }
    // reader ends: trailing separators, empty argument, missing final newline
    for (a, b) in [(None, ""), (Some(""), ""), (Some(";"), ";"), (Some("help"), "quit"), (Some("help;"), "quit\n"),
        (Some("help;;"), "\n\nquit"), (Some("a;b\nc"), "d;e\nf"), (None, "help"), (None, "help\n"),
        (Some("sudo"), "help"), (Some("help;sudo x;quit"), ""), (None, "bogus\nsudo\nhelp"),
        (Some("é;echo ß"), "echo 😀\n"), (Some("\u{00A0}"), "\u{2003}\n")]
    {
        v.push(Case::Session(a.map(|s: &str| s.to_string()), b.as_bytes().to_vec()));
    }
    // invalid UTF-8 on stdin (outside the property's domain, I9): "uh oh"
    for b in [vec![0x68u8, 0x80], vec![0xC3], vec![0xC0, 0x80], vec![0xFF, 0x41], vec![0xED, 0xA0, 0x80], vec![0xF8, 0x80, 0x80, 0x80], vec![0x68, 0x0a, 0xE2, 0x82]] {
        v.push(Case::Session(None, b.to_vec()));
        v.push(Case::Session(Some("help".into()), b.to_vec()));
    }
    v
}

fn json_str(s: &str) -> String {
    let mut o = String::from("\"");
    for c in s.chars() {
        match c {
            '"' => o.push_str("\\\""),
            '\\' => o.push_str("\\\\"),
            c if (c as u32) < 0x20 || (c as u32) > 0x7e => o.push_str(&format!("\\u{:04x}", (c as u32) & 0xFFFF)),
            c => o.push(c),
        }
    }
    o.push('"');
    o
}

pub fn run(o: &crate::Opts) {
    let mut cap = Capture::install();
    let mut sink = crate::Sink::new(o);
    if let Some(path) = &o.replay {
        for line in std::fs::read_to_string(path).unwrap().lines() {
            match Case::parse(line) {
                Some(c) => {
                    let obs = c.run(&mut cap);
                    sink.put(line, &obs);
                }
                None => sink.put(line, "bad-request"),
            }
        }
        sink.finish(o, "{}");
        return;
    }
    let mut idx: u64 = 0; // global case counter: case k belongs to shard k % nshards
    let mut ran: u64 = 0;
    let mut counts: Vec<(&str, u64)> = Vec::new();
    let mut samples: Vec<String> = Vec::new();
    let mut srng = Rng::new(o.seed ^ 0xC14 ^ (o.shard as u64) << 32);
    let mut emit = |c: Case, cap: &mut Capture, sink: &mut crate::Sink, force: bool, kind_n: &mut u64| {
        let mine = force || (idx as usize) % o.nshards == o.shard;
        if !force {
            idx += 1;
        }
        if !mine {
            return;
        }
        if ran % 512 == 0 {
            cap.begin(); // truncates the capture files when they have grown
        }
        ran += 1;
        *kind_n += 1;
        let obs = c.run(cap);
        let rq = c.request();
        if samples.len() < 6 && srng.chance(1, 4000) {
            samples.push(format!("{{\"request\":{},\"observation\":{}}}", json_str(&rq), json_str(&obs)));
        }
        sink.put(&rq, &obs);
    };

    // 0. corpus (shard 0)
    let mut n = 0;
    if o.shard == 0 {
        for c in corpus() {
            emit(c, &mut cap, &mut sink, true, &mut n);
        }
    }
    counts.push(("corpus", n));

    // 1. exhaustive: all strings of length 0..=L over the 16-symbol alphabet × 5 templates
    let maxlen = if o.thorough { 5 } else { 4 };
    let mut n = 0;
    for len in 0..=maxlen {
        let total = 16u64.pow(len);
        for code in 0..total {
            let mut tok = String::new();
            let mut c = code;
            for _ in 0..len {
                tok.push(ALPHABET[(c % 16) as usize]);
                c /= 16;
            }
            for t in TEMPLATES {
                emit(Case::Line(t.replace("{}", &tok).trim_end().to_string()), &mut cap, &mut sink, false, &mut n);
            }
        }
    }
    counts.push(("exhaustive_short_tokens", n));

    // 2. boundary-directed long literals
    let mut n = 0;
    let toks = boundary_tokens();
    for tok in &toks {
        for t in BOUNDARY_TEMPLATES {
            emit(Case::Line(t.replace("{}", tok)), &mut cap, &mut sink, false, &mut n);
        }
    }
    counts.push(("boundary_literals", n));

    // 3. every command word in three letter cases with 0..=3 arguments
    let mut n = 0;
    let mut rng = Rng::new(o.seed ^ 0xC14);
    for w in WORDS {
        for cw in cases3(w) {
            emit(Case::Line(cw.clone()), &mut cap, &mut sink, false, &mut n);
            for a1 in ARGS {
                emit(Case::Line(format!("{cw} {a1}")), &mut cap, &mut sink, false, &mut n);
            }
            for _ in 0..8 {
                let (a1, a2, a3) = (rng.pick(ARGS), rng.pick(ARGS), rng.pick(ARGS));
                emit(Case::Line(format!("{cw} {a1} {a2}")), &mut cap, &mut sink, false, &mut n);
                emit(Case::Line(format!("{cw}  {a1} {a2}   {a3}")), &mut cap, &mut sink, false, &mut n);
            }
            if ["step", "s", "b", "break"].contains(w) {
                for sw in SUBWORDS {
                    for csw in cases3(sw) {
                        emit(Case::Line(format!("{cw} {csw}")), &mut cap, &mut sink, false, &mut n);
                        let a1 = rng.pick(ARGS);
                        let a2 = rng.pick(ARGS);
                        emit(Case::Line(format!("{cw} {csw} {a1}")), &mut cap, &mut sink, false, &mut n);
                        emit(Case::Line(format!("{cw}   {csw} {a1} {a2}")), &mut cap, &mut sink, false, &mut n);
                    }
                }
            }
        }
    }
    counts.push(("command_words", n));

    // 4. random longer lines with multi-byte characters and Unicode white space
    let mut n = 0;
    let nrand = if o.thorough { 400_000 } else { 40_000 };
    for _ in 0..nrand {
        let l = random_line(&mut rng).replace([';', '\n'], "_");
        emit(Case::Line(l), &mut cap, &mut sink, false, &mut n);
    }
    counts.push(("random_lines", n));

    // 4a. command words spelled with characters whose Unicode case mapping is an ASCII letter
    // (KELVIN SIGN K → k, LATIN SMALL LETTER LONG S ſ → S, dotless ı → I, İ → i̇): command names
    // are matched ASCII-case-insensitively, so none of these spells a command
    let mut n = 0;
    for w in WORDS {
        let mut variants: Vec<String> = Vec::new();
        for (from, to) in [('k', '\u{212A}'), ('s', '\u{17F}'), ('i', '\u{131}'), ('i', '\u{130}')] {
            if w.contains(from) {
                variants.push(w.replacen(from, &to.to_string(), 1));
                variants.push(w.to_ascii_uppercase().replacen(from.to_ascii_uppercase(), &to.to_string(), 1));
            }
        }
        for v in variants {
            emit(Case::Line(v.clone()), &mut cap, &mut sink, false, &mut n);
            emit(Case::Line(format!("{v} x3000")), &mut cap, &mut sink, false, &mut n);
            emit(Case::Line(format!("{v} add x3002")), &mut cap, &mut sink, false, &mut n);
            emit(Case::Line(format!("b {v} x3002")), &mut cap, &mut sink, false, &mut n);
        }
    }
    counts.push(("unicode_case_lookalikes", n));

    // 4b. very many surplus tokens (counters of 8 bits and the like must not wrap or overflow):
    // a command followed by N space-separated tokens, N around every power of two up to 2^16
    let mut n = 0;
    let heads = ["move r0 7", "help", "step", "break list", "print r1", "goto x3000", "echo", "eval add r0 r0 #1", "step into", "bogus"];
    let mut counts_n: Vec<usize> = vec![1, 2, 3, 4, 5, 8];
    for p in [7u32, 8, 9, 10, 16] {
        if p == 16 && !o.thorough {
            continue;
        }
        for d in [-3i64, -2, -1, 0, 1, 2] {
            counts_n.push(((1i64 << p) + d) as usize);
        }
    }
    counts_n.extend_from_slice(&[250, 251, 252, 300, 1000]);
    for h in heads {
        for &k in &counts_n {
            for tok in [" x", "  7", " r1"] {
                emit(Case::Line(format!("{}{}", h, tok.repeat(k))), &mut cap, &mut sink, false, &mut n);
            }
        }
    }
    counts.push(("many_tokens", n));

    // 4c. scripts longer than any reader's buffer (8 KiB, 64 KiB) with a multi-byte character on
    // every byte offset around the buffer sizes, delivered on standard input / split
    let mut n = 0;
    for size in [8192usize, 16384, 65536] {
        if size == 65536 && !o.thorough {
            continue;
        }
        for delta in -4i64..=2 {
            for ch in ["é", "中", "😀"] {
                let at = (size as i64 + delta) as usize; // byte offset of the character's first byte
                let head = "echo ";
                let filler = "a".repeat(at - head.len());
                let script = format!("{head}{filler}{ch}b\nmove r3 x1234\nprint r3\necho done");
                emit(Case::Session(None, script.clone().into_bytes()), &mut cap, &mut sink, false, &mut n);
                emit(Case::Session(Some("help".into()), script.into_bytes()), &mut cap, &mut sink, false, &mut n);
            }
        }
    }
    counts.push(("long_stdin_scripts", n));

    // 5. scripts: every split between argument and stdin, `;` vs newline vs mixed
    let mut n = 0;
    let nscripts = if o.thorough { 2000 } else { 200 };
    let mut nsplit = 0u64;
    for _ in 0..nscripts {
        let script = random_script(&mut rng);
        let mut cases = Vec::new();
        script_cases(&script, &mut rng, &mut cases);
        nsplit += cases.len() as u64;
        for c in cases {
            emit(c, &mut cap, &mut sink, false, &mut n);
        }
    }
    counts.push(("script_splits", n));

    drop(emit);
    // per-run constants are reported by shard 0 only (the check sums integer fields over shards)
    let once = |v: u64| if o.shard == 0 { v } else { 0 };
    let mut stats = format!("{{\"cases\":{},\"scripts\":{},\"script_split_cases\":{},\"exhaustive_max_len\":{}",
        sink.n, once(nscripts as u64), once(nsplit), once(maxlen as u64));
    for (k, v) in &counts {
        stats.push_str(&format!(",\"{}\":{}", k, v));
    }
    stats.push_str(&format!(",\"samples\":[{}]}}", samples.join(",")));
    sink.finish(o, &stats);
}
