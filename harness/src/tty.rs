//! C03, terminal mode (`C03T`): `lace run` with a pseudo-terminal on standard input, so that
//! GETC / IN go through `term::read_byte` (crossterm key events, raw mode toggled per read)
//! instead of the byte reader used with a pipe.  A key whose UTF-8 encoding has N bytes must
//! behave as N input bytes — "GETC and IN consume exactly one input byte each" — so the
//! answer expected from the model is its run on the UTF-8 bytes of the typed text.
//!
//! Keys are printable ASCII and non-ASCII characters of 2, 3 and 4 bytes; no control characters
//! (typed ahead while the terminal is in cooked mode they would be interpreted by the line
//! discipline: CR→LF, erase, signals).  Programs read at most as many bytes as were typed (a
//! further read would wait for the keyboard for ever).
//!
//! Control keys (`K03`, a handful of fixed sessions on shard 0): Enter, Backspace, Tab, Ctrl+A,
//! Ctrl+J, Ctrl+Space, Ctrl+C between ordinary keys, each key typed only while the terminal is in
//! raw mode (lace waiting inside `read_key`): the harness polls the pty's `ICANON` flag before every
//! key and, after a key that should deliver a value, waits for the program's output of it (the
//! programs flush with OUT after every read).  Expected: the model of `term.rs` on the events
//! crossterm decodes from these bytes, and the pipe path on `pipeBytes` of those events.
use crate::cap::hex;
use crate::cli::{lace_bin, ProcOut, TmpDir};
use crate::prng::Rng;
use std::fs::File;
use std::io::{Read, Write};
use std::os::fd::FromRawFd;
use std::process::{Command, Stdio};
use std::time::{Duration, Instant};

extern "C" {
    fn openpty(amaster: *mut i32, aslave: *mut i32, name: *mut u8, termp: *const u8, winp: *const u8) -> i32;
}

/// Run `lace <args>` in `dir` with a pty on stdin and `keys` typed into it.
pub fn spawn_tty(dir: &std::path::Path, args: &[&str], keys: &[u8], timeout_ms: u64) -> ProcOut {
    let (mut master, slave) = unsafe {
        let (mut m, mut s) = (0i32, 0i32);
        let rc = openpty(&mut m, &mut s, std::ptr::null_mut(), std::ptr::null(), std::ptr::null());
        assert!(rc == 0, "openpty failed");
        (File::from_raw_fd(m), File::from_raw_fd(s))
    };
    let mut child = Command::new(lace_bin())
        .args(args)
        .current_dir(dir)
        .env("NO_COLOR", "1")
        .stdin(Stdio::from(slave))
        .stdout(Stdio::piped())
        .stderr(Stdio::piped())
        .spawn()
        .expect("spawn lace");
    let _ = master.write_all(keys);
    let _ = master.flush();
    let start = Instant::now();
    let mut timed_out = false;
    loop {
        match child.try_wait() {
            Ok(Some(_)) => break,
            Ok(None) => {
                if start.elapsed() > Duration::from_millis(timeout_ms) {
                    let _ = child.kill();
                    timed_out = true;
                    break;
                }
                std::thread::sleep(Duration::from_millis(2));
            }
            Err(_) => break,
        }
    }
    let out = child.wait_with_output().expect("wait");
    drop(master);
    ProcOut { pid: 0, status: if timed_out { None } else { out.status.code() }, stdout: out.stdout, stderr: out.stderr }
}

fn show(o: &ProcOut) -> String {
    match o.status {
        Some(101) => "panic".to_string(),
        Some(c) => format!("fin {} {}", c, hex(&o.stdout)),
        None => "timeout".to_string(),
    }
}

const WIDE: [&str; 12] = ["é", "ñ", "ß", "Ω", "€", "→", "中", "한", "😀", "𝄞", "¡", "\u{7ff}"];

fn run_one(dir: &std::path::Path, minimal: bool, keys: &str, words: &[u16]) -> String {
    let mut src = String::from(".orig x3000\n");
    for w in words {
        src.push_str(&format!(".fill x{:04X}\n", w));
    }
    std::fs::write(dir.join("t.asm"), src).unwrap();
    let mut args = vec!["run", "t.asm"];
    if minimal {
        args.push("--minimal");
    }
    show(&spawn_tty(dir, &args, keys.as_bytes(), 8000))
}

fn request(minimal: bool, keys: &str, words: &[u16]) -> String {
    let mut s = format!("T03 {} {:x} {} {:x}", minimal as u8, 100_000, hex(keys.as_bytes()), words.len());
    for w in words {
        s.push_str(&format!(" {:04x}", w));
    }
    s
}

fn parse(line: &str) -> Option<(bool, String, Vec<u16>)> {
    let f: Vec<&str> = line.split_whitespace().collect();
    if f.len() < 5 || f[0] != "T03" {
        return None;
    }
    let keys = String::from_utf8(crate::cap::unhex(f[3])?).ok()?;
    let words: Option<Vec<u16>> = f[5..].iter().map(|w| u16::from_str_radix(w, 16).ok()).collect();
    Some((f[1] != "0", keys, words?))
}

/// One read per typed byte (or fewer), each followed by PUTN so that R0 shows in the output.
fn program(rng: &mut Rng, nbytes: usize) -> Vec<u16> {
    let reads = if rng.chance(3, 4) { nbytes } else { rng.below(nbytes as u64 + 1) as usize };
    let mut w = Vec::new();
    for _ in 0..reads {
        w.push(if rng.chance(2, 3) { 0xF020 } else { 0xF023 }); // GETC | IN
        w.push(0xF026); // PUTN
        if rng.chance(1, 3) {
            w.push(0x1261); // ADD R1,R1,#1
        }
    }
    w.push(0xF025);
    w
}

#[repr(C)]
struct Termios {
    iflag: u32,
    oflag: u32,
    cflag: u32,
    lflag: u32,
    line: u8,
    cc: [u8; 32],
    ispeed: u32,
    ospeed: u32,
}

extern "C" {
    fn tcgetattr(fd: i32, t: *mut Termios) -> i32;
}

const ICANON: u32 = 0o2;

/// Is the terminal behind `master` in raw mode (as far as the line discipline goes)?
fn is_raw(master: &File) -> bool {
    use std::os::fd::AsRawFd;
    let mut t = Termios { iflag: 0, oflag: 0, cflag: 0, lflag: ICANON, line: 0, cc: [0; 32], ispeed: 0, ospeed: 0 };
    let rc = unsafe { tcgetattr(master.as_raw_fd(), &mut t) };
    rc == 0 && t.lflag & ICANON == 0
}

/// Does this key make a read return (used for pacing only: a wrong answer costs time, nothing else)?
fn key_delivers(k: char) -> bool {
    k == '\r' || (k >= ' ' && k != '\x7f')
}

/// Run `lace <args>` in `dir` with a pty on stdin; every key is typed while the terminal is in raw
/// mode, and after a delivering key the harness waits until standard output has grown.
pub fn spawn_tty_synced(dir: &std::path::Path, args: &[&str], keys: &str, timeout_ms: u64) -> ProcOut {
    let (mut master, slave) = unsafe {
        let (mut m, mut s) = (0i32, 0i32);
        let rc = openpty(&mut m, &mut s, std::ptr::null_mut(), std::ptr::null(), std::ptr::null());
        assert!(rc == 0, "openpty failed");
        (File::from_raw_fd(m), File::from_raw_fd(s))
    };
    let mut child = Command::new(lace_bin())
        .args(args)
        .current_dir(dir)
        .env("NO_COLOR", "1")
        .stdin(Stdio::from(slave))
        .stdout(Stdio::piped())
        .stderr(Stdio::piped())
        .spawn()
        .expect("spawn lace");
    let out = collect(child.stdout.take().unwrap());
    let err = collect(child.stderr.take().unwrap());
    let start = Instant::now();
    let expired = |start: &Instant| start.elapsed() > Duration::from_millis(timeout_ms);
    let mut exited = false;
    'keys: for k in keys.chars() {
        // wait for raw mode
        loop {
            if let Ok(Some(_)) = child.try_wait() {
                exited = true;
                break 'keys;
            }
            if is_raw(&master) || expired(&start) {
                break;
            }
            std::thread::sleep(Duration::from_millis(1));
        }
        let before = out.lock().unwrap().len();
        let mut b = [0u8; 4];
        let _ = master.write_all(k.encode_utf8(&mut b).as_bytes());
        let _ = master.flush();
        if key_delivers(k) {
            // the value is printed and flushed by the program before it reads again
            let t0 = Instant::now();
            while out.lock().unwrap().len() == before && t0.elapsed() < Duration::from_millis(3000) {
                if let Ok(Some(_)) = child.try_wait() {
                    exited = true;
                    break 'keys;
                }
                std::thread::sleep(Duration::from_millis(1));
            }
        }
    }
    let mut status = None;
    if !exited {
        loop {
            match child.try_wait() {
                Ok(Some(_)) => break,
                Ok(None) => {
                    if expired(&start) {
                        let _ = child.kill();
                        break;
                    }
                    std::thread::sleep(Duration::from_millis(2));
                }
                Err(_) => break,
            }
        }
    }
    let timed_out = !exited && expired(&start);
    if let Ok(st) = child.wait() {
        if !timed_out {
            status = st.code();
        }
    }
    std::thread::sleep(Duration::from_millis(20)); // let the collectors drain the pipes
    drop(master);
    let stdout = out.lock().unwrap().clone();
    let stderr = err.lock().unwrap().clone();
    ProcOut { pid: 0, status, stdout, stderr }
}

/// `K03`: per read GETC|IN, PUTN, OUT (OUT flushes standard output).
fn k03_words(reads: &[bool]) -> Vec<u16> {
    let mut w = Vec::new();
    for &is_in in reads {
        w.push(if is_in { 0xF023 } else { 0xF020 });
        w.push(0xF026);
        w.push(0xF021);
    }
    w.push(0xF025);
    w
}

fn k03_request(keys: &str, words: &[u16]) -> String {
    let mut s = format!("K03 1 {:x} {} {:x}", 100_000, hex(keys.as_bytes()), words.len());
    for w in words {
        s.push_str(&format!(" {:04x}", w));
    }
    s
}

fn k03_run(dir: &std::path::Path, keys: &str, words: &[u16], timeout_ms: u64) -> String {
    let mut src = String::from(".orig x3000\n");
    for w in words {
        src.push_str(&format!(".fill x{:04X}\n", w));
    }
    std::fs::write(dir.join("t.asm"), src).unwrap();
    show(&spawn_tty_synced(dir, &["run", "t.asm", "--minimal"], keys, timeout_ms))
}

fn k03_parse(line: &str) -> Option<(String, Vec<u16>)> {
    let f: Vec<&str> = line.split_whitespace().collect();
    if f.len() < 5 || f[0] != "K03" {
        return None;
    }
    let keys = String::from_utf8(crate::cap::unhex(f[3])?).ok()?;
    let words: Option<Vec<u16>> = f[5..].iter().map(|w| u16::from_str_radix(w, 16).ok()).collect();
    Some((keys, words?))
}

/// (keys, reads: false = GETC, true = IN).  The number of reads is the number of values the keys
/// deliver, except in the last session (one read more than keys: the process must be left waiting).
fn k03_corpus() -> Vec<(&'static str, Vec<bool>, u64)> {
    vec![
        ("a\rb", vec![false, false, false], 8000),                     // Enter → 10
        ("\r\r", vec![true, false], 8000),                             // IN echoes the line feed
        ("x\x7f\t\x01y", vec![false, false], 8000),                    // Backspace, Tab, Ctrl+A: no value
        ("\n\x00é\n\x7fz", vec![false, true, false], 8000),           // Ctrl+J, Ctrl+Space ignored, also inside a 2-byte key
        ("€\x7f\rQ", vec![true, false, false, false, false], 8000),    // 3-byte key, Backspace while 2 bytes are buffered
        ("p\x03q", vec![false, false], 8000),                          // Ctrl+C: exit 0 after a line feed
        ("\x03", vec![true], 8000),
        ("k", vec![false, false], 1200),                               // second read waits for ever
    ]
}

/// Re-run one `T03` / `K03` request line (also used by the C03 harness when it replays a file).
pub fn replay_line(dir: &std::path::Path, line: &str) -> Option<String> {
    if let Some((keys, words)) = k03_parse(line) {
        return Some(k03_run(dir, &keys, &words, 8000));
    }
    parse(line).map(|(mi, keys, words)| run_one(dir, mi, &keys, &words))
}

pub fn run(o: &crate::Opts) {
    let mut sink = crate::Sink::new(o);
    let tmp = TmpDir::new(&format!("c03t-{}", o.shard));
    let dir = tmp.0.clone();
    if let Some(path) = &o.replay {
        for line in std::fs::read_to_string(path).unwrap().lines() {
            match replay_line(&dir, line) {
                Some(obs) => sink.put(line, &obs),
                None => sink.put(line, "bad-request"),
            }
        }
        sink.finish(o, "{}");
        return;
    }
    let mut rng = Rng::new(o.seed.wrapping_mul(77003) ^ (o.shard as u64) << 32 ^ 0x7717);
    let total = if o.thorough { 60 } else { 12 };
    let mut key_lens = [0u64; 5];
    let mut n = 0u64;
    let mut control_sessions = 0u64;
    // corpus (shard 0): the witnesses of seeded change H1-m1
    if o.shard == 0 {
        for keys in ["éxy", "€y", "abcd", "😀z"] {
            let words = [0xF020u16, 0xF026, 0xF020, 0xF026, 0xF020, 0xF026, 0xF020, 0xF026, 0xF025];
            sink.put(&request(true, keys, &words), &run_one(&dir, true, keys, &words));
            n += 1;
        }
        for (keys, reads, timeout) in k03_corpus() {
            let words = k03_words(&reads);
            sink.put(&k03_request(keys, &words), &k03_run(&dir, keys, &words, timeout));
            n += 1;
            control_sessions += 1;
        }
    }
    for _ in 0..total {
        let mut keys = String::new();
        for _ in 0..rng.range(1, 6) {
            if rng.chance(1, 2) {
                let c = (0x20 + rng.below(0x5f) as u8) as char;
                keys.push(c);
                key_lens[1] += 1;
            } else {
                let c = *rng.pick(&WIDE);
                keys.push_str(c);
                key_lens[c.len()] += 1;
            }
        }
        let words = program(&mut rng, keys.len());
        let mi = rng.chance(3, 4);
        sink.put(&request(mi, &keys, &words), &run_one(&dir, mi, &keys, &words));
        n += 1;
    }
    let n_cases = sink.n;
    sink.finish(
        o,
        &format!(
            "{{\"cases\":{},\"tty_runs\":{},\"control_key_sessions\":{},\"keys_by_utf8_length\":[{},{},{},{},{}],\"samples\":[]}}",
            n_cases, n, control_sessions, key_lens[0], key_lens[1], key_lens[2], key_lens[3], key_lens[4]
        ),
    );
}

// ------------------------------------------------------------------ C20T: the debugger's line
// editor on a real (pseudo-)terminal
//
// `lace debug t.asm --minimal` with a pty on stdin: keys are typed as the byte sequences a
// terminal sends (UTF-8, DEL, CSI sequences for arrows / Ctrl+arrows / Delete, CR for Enter),
// decoded by crossterm and `term::Key::try_from`, edited by `Terminal::handle_key`, split by
// `get_next_command`, parsed and run by the debugger.  Observed: the `echo` outputs whose text
// starts with `@` (stderr) and the history file afterwards.  After every Enter the harness waits
// until the debugger is quiet again (it is then back in raw mode, waiting for a key), so no
// control character is ever typed while the terminal is in cooked mode.

use lace::verif::Key;
use std::sync::{Arc, Mutex};

pub fn key_bytes(k: &Key) -> Vec<u8> {
    match k {
        Key::Char(c) => c.to_string().into_bytes(),
        Key::Backspace => vec![0x7f],
        Key::Delete => b"\x1b[3~".to_vec(),
        Key::Left => b"\x1b[D".to_vec(),
        Key::Right => b"\x1b[C".to_vec(),
        Key::Up => b"\x1b[A".to_vec(),
        Key::Down => b"\x1b[B".to_vec(),
        Key::CtrlLeft => b"\x1b[1;5D".to_vec(),
        Key::CtrlRight => b"\x1b[1;5C".to_vec(),
        Key::Enter => vec![b'\r'],
    }
}

pub fn strip_ansi(b: &[u8]) -> Vec<u8> {
    let mut out = Vec::with_capacity(b.len());
    let mut i = 0;
    while i < b.len() {
        if b[i] == 0x1b && i + 1 < b.len() && b[i + 1] == b'[' {
            i += 2;
            while i < b.len() && !(0x40..=0x7e).contains(&b[i]) {
                i += 1;
            }
            i += 1;
        } else {
            out.push(b[i]);
            i += 1;
        }
    }
    out
}

fn collect(mut r: impl Read + Send + 'static) -> Arc<Mutex<Vec<u8>>> {
    let buf: Arc<Mutex<Vec<u8>>> = Arc::new(Mutex::new(Vec::new()));
    let b2 = buf.clone();
    std::thread::spawn(move || {
        let mut chunk = [0u8; 4096];
        loop {
            match r.read(&mut chunk) {
                Ok(0) | Err(_) => break,
                Ok(n) => b2.lock().unwrap().extend_from_slice(&chunk[..n]),
            }
        }
    });
    buf
}

/// Wait until `buf` has not grown for `quiet_ms` (and, if given, contains `needle`), at most `max_ms`.
fn wait_quiet(buf: &Arc<Mutex<Vec<u8>>>, needle: Option<&[u8]>, quiet_ms: u64, max_ms: u64, child: &mut std::process::Child) {
    let t0 = Instant::now();
    let mut last = buf.lock().unwrap().len();
    let mut since = Instant::now();
    loop {
        std::thread::sleep(Duration::from_millis(10));
        if let Ok(Some(_)) = child.try_wait() {
            return;
        }
        let (len, has) = {
            let g = buf.lock().unwrap();
            (g.len(), needle.map_or(true, |n| g.windows(n.len()).any(|w| w == n)))
        };
        if len != last {
            last = len;
            since = Instant::now();
        }
        if (has && since.elapsed() > Duration::from_millis(quiet_ms)) || t0.elapsed() > Duration::from_millis(max_ms) {
            return;
        }
    }
}

fn items(v: &[String]) -> String {
    if v.is_empty() {
        "-".into()
    } else {
        v.iter().map(|s| if s.is_empty() { ".".to_string() } else { hex(s.as_bytes()) }).collect::<Vec<_>>().join(",")
    }
}

/// One terminal session of the debugger; answer `echo=<items> hist=<items>`.
pub fn debug_session(dir: &std::path::Path, hist: &[String], keys: &[Key]) -> String {
    let cache = dir.join("cache");
    let _ = std::fs::remove_dir_all(&cache);
    std::fs::create_dir_all(&cache).unwrap();
    let hfile = cache.join("lace-debugger-history");
    let mut h = String::new();
    for l in hist {
        h.push_str(l);
        h.push('\n');
    }
    std::fs::write(&hfile, h).unwrap();
    std::fs::write(dir.join("t.asm"), ".orig x3000\nhalt\n").unwrap();
    let (mut master, slave) = unsafe {
        let (mut m, mut s) = (0i32, 0i32);
        let rc = openpty(&mut m, &mut s, std::ptr::null_mut(), std::ptr::null(), std::ptr::null());
        assert!(rc == 0, "openpty failed");
        (File::from_raw_fd(m), File::from_raw_fd(s))
    };
    let mut child = Command::new(lace_bin())
        .args(["debug", "t.asm", "--minimal"])
        .current_dir(dir)
        .env("NO_COLOR", "1")
        .env("XDG_CACHE_HOME", &cache)
        .env("HOME", dir)
        .stdin(Stdio::from(slave))
        .stdout(Stdio::piped())
        .stderr(Stdio::piped())
        .spawn()
        .expect("spawn lace");
    let err = collect(child.stderr.take().unwrap());
    let _out = collect(child.stdout.take().unwrap());
    wait_quiet(&err, Some(b"lace~ "), 150, 8000, &mut child);
    for k in keys {
        if let Ok(Some(_)) = child.try_wait() {
            break;
        }
        let _ = master.write_all(&key_bytes(k));
        let _ = master.flush();
        if matches!(k, Key::Enter) {
            wait_quiet(&err, None, 150, 4000, &mut child);
        }
    }
    let t0 = Instant::now();
    let mut exited = false;
    while t0.elapsed() < Duration::from_millis(4000) {
        if let Ok(Some(_)) = child.try_wait() {
            exited = true;
            break;
        }
        std::thread::sleep(Duration::from_millis(10));
    }
    if !exited {
        let _ = child.kill();
        let _ = child.wait();
        return "timeout".into();
    }
    std::thread::sleep(Duration::from_millis(30));
    let text = strip_ansi(&err.lock().unwrap());
    // `[@…]` followed by a line feed
    let mut echoes = Vec::new();
    let mut i = 0;
    while i + 1 < text.len() {
        if text[i] == b'[' && text[i + 1] == b'@' {
            if let Some(j) = text[i..].iter().position(|&b| b == b']' || b == b'\n') {
                if text[i + j] == b']' {
                    echoes.push(String::from_utf8_lossy(&text[i + 1..i + j]).to_string());
                    i += j;
                }
            }
        }
        i += 1;
    }
    let hist_now: Vec<String> = std::fs::read_to_string(&hfile).unwrap_or_default().lines().map(|s| s.to_string()).collect();
    drop(master);
    format!("echo={} hist={}", items(&echoes), items(&hist_now))
}
