//! Process-mode checks (C06, C07, C08): spawn the real `lace` binary on temporary files.
use crate::cap::{hex, unhex};
use crate::progs::{gen_random_image, gen_structured, Prog};
use crate::prng::Rng;
use std::io::Write;
use std::path::{Path, PathBuf};
use std::process::{Command, Stdio};
use std::time::{Duration, Instant};

pub struct ProcOut {
    pub pid: u32,
    pub status: Option<i32>, // None = timeout / killed by signal
    pub stdout: Vec<u8>,
    pub stderr: Vec<u8>,
}

pub fn lace_bin() -> String {
    std::env::var("LACE_BIN").unwrap_or_else(|_| "/verif/target/repo/debug/lace".into())
}

#[repr(C)]
struct RLimit {
    cur: u64,
    max: u64,
}
extern "C" {
    fn setrlimit(resource: i32, rlim: *const RLimit) -> i32;
    fn signal(signum: i32, handler: usize) -> usize;
}
const RLIMIT_FSIZE: i32 = 1; // x86_64 Linux
const SIGXFSZ: i32 = 25;
const SIG_IGN: usize = 1;

pub fn spawn(dir: &Path, args: &[&str], stdin: &[u8], timeout_ms: u64) -> ProcOut {
    spawn_limited(dir, args, stdin, timeout_ms, None)
}

/// `fsize`: a file size limit (RLIMIT_FSIZE, in bytes) in force in the child, with SIGXFSZ ignored,
/// so that a write to a regular file beyond that many bytes fails with EFBIG after a short write —
/// the way a full disk does. Pipes (the child's stdout/stderr) are not affected.
pub fn spawn_limited<S: AsRef<std::ffi::OsStr>>(dir: &Path, args: &[S], stdin: &[u8], timeout_ms: u64, fsize: Option<u64>) -> ProcOut {
    use std::os::unix::process::CommandExt;
    let mut cmd = Command::new(lace_bin());
    cmd.args(args)
        .current_dir(dir)
        .env("NO_COLOR", "1")
        .stdin(Stdio::piped())
        .stdout(Stdio::piped())
        .stderr(Stdio::piped());
    if let Some(lim) = fsize {
        unsafe {
            cmd.pre_exec(move || {
                signal(SIGXFSZ, SIG_IGN);
                let r = RLimit { cur: lim, max: lim };
                if setrlimit(RLIMIT_FSIZE, &r) != 0 {
                    return Err(std::io::Error::last_os_error());
                }
                Ok(())
            });
        }
    }
    let mut child = cmd.spawn().expect("spawn lace");
    let pid = child.id();
    {
        let mut si = child.stdin.take().unwrap();
        let _ = si.write_all(stdin);
    }
    let start = Instant::now();
    loop {
        match child.try_wait() {
            Ok(Some(_)) => break,
            Ok(None) => {
                if start.elapsed() > Duration::from_millis(timeout_ms) {
                    let _ = child.kill();
                    let out = child.wait_with_output().expect("wait");
                    return ProcOut { pid, status: None, stdout: out.stdout, stderr: out.stderr };
                }
                std::thread::sleep(Duration::from_millis(2));
            }
            Err(_) => break,
        }
    }
    let out = child.wait_with_output().expect("wait");
    ProcOut { pid, status: out.status.code(), stdout: out.stdout, stderr: out.stderr }
}

pub struct TmpDir(pub PathBuf);
impl TmpDir {
    pub fn new(tag: &str) -> TmpDir {
        let base = std::env::var("LVH_TMP").unwrap_or_else(|_| "/verif/tmp".into());
        let p = PathBuf::from(base).join(format!("{}-{}", tag, std::process::id()));
        let _ = std::fs::remove_dir_all(&p);
        std::fs::create_dir_all(&p).unwrap();
        TmpDir(p)
    }
}
impl Drop for TmpDir {
    fn drop(&mut self) {
        let _ = std::fs::remove_dir_all(&self.0);
    }
}

fn show_proc(o: &ProcOut) -> String {
    match o.status {
        Some(101) => "panic".to_string(),
        Some(c) => format!("fin {} {}", c, hex(&o.stdout)),
        None => "timeout".to_string(),
    }
}

/// Source text that assembles to exactly these words: `.orig` + one `.fill` per word.
pub fn fill_source(p: &Prog, with_orig: bool) -> String {
    let mut s = String::new();
    if with_orig {
        s.push_str(&format!(".orig x{:04X}\n", p.orig));
    }
    for w in &p.words {
        s.push_str(&format!("    .fill x{:04X}\n", w));
    }
    s
}

fn words_req(orig: Option<u16>, words: &[u16]) -> String {
    let mut s = match orig {
        Some(o) => format!("{:04x}", o),
        None => "-".to_string(),
    };
    s.push_str(&format!(" {:x}", words.len()));
    for w in words {
        s.push_str(&format!(" {:04x}", w));
    }
    s
}

/// C06: compile → bytes; run object file; run source; arbitrary byte strings as object files.
pub fn run_c06(o: &crate::Opts) {
    let mut sink = crate::Sink::new(o);
    let tmp = TmpDir::new(&format!("c06-{}", o.shard));
    let dir = tmp.0.clone();
    if let Some(path) = &o.replay {
        for line in std::fs::read_to_string(path).unwrap().lines() {
            let obs = replay_c06(&dir, line).unwrap_or_else(|| "bad-request".into());
            sink.put(line, &obs);
        }
        sink.finish(o, "{}");
        return;
    }
    let mut rng = Rng::new(o.seed.wrapping_mul(7919) ^ (o.shard as u64) << 32 ^ 0xC06);
    let total: u64 = if o.thorough { 12_000 } else { 480 };
    let per = total / o.nshards as u64;
    let mut n_prog = 0u64;
    let mut n_bytes = 0u64;
    let mut agree_src_obj = 0u64;
    let mut samples: Vec<String> = Vec::new();
    let fuel: u64 = 400_000;
    let mut corpus: Vec<Vec<u8>> = Vec::new();
    if o.shard == 0 {
        corpus = vec![
            vec![],
            vec![0x30],
            vec![0x30, 0x00],
            vec![0x30, 0x00, 0xF0],
            vec![0x30, 0x00, 0xF0, 0x25],
            vec![0xFF, 0xFF],
            vec![0xFF, 0xFF, 0xF0, 0x25],
            vec![0xFF, 0xFE, 0xF0, 0x25],
            vec![0xFF, 0xFD, 0xF0, 0x25, 0x00, 0x00],
            vec![0xFD, 0xFF, 0x10, 0x21],
        ];
    }
    // object files at and beyond the size limits of the loader (first instruction HALT so that an
    // accepted one stops at once): for origin o the largest loadable file has 2·(0x10000 − o) bytes;
    // one byte / one word more, the sizes around 0x20000 bytes (0x10000 words: where a 16-bit length
    // wraps) and far beyond must all be rejected with an error exit. Spread over the shards.
    {
        let mut huge: Vec<Vec<u8>> = Vec::new();
        for orig in [0u16, 0x3000] {
            let max = 2 * (0x10000usize - orig as usize);
            for size in [max - 2, max, max + 1, max + 2, 0x20000, 0x20001, 0x20002, 0x20004, 0x30000, 0x40002] {
                let mut b = vec![0u8; size];
                b[..2].copy_from_slice(&orig.to_be_bytes());
                b[2..4].copy_from_slice(&0xF025u16.to_be_bytes());
                huge.push(b);
            }
        }
        for (i, b) in huge.into_iter().enumerate() {
            if i % o.nshards == o.shard {
                corpus.push(b);
            }
        }
    }
    // file names that are not valid UTF-8 (in the extension, in the stem): an error exit or a
    // normal run, never a crash
    if o.shard == 1 % o.nshards {
        use std::os::unix::ffi::OsStrExt;
        let names: [(&[u8], i32); 5] = [(b"n1.\xff", 1), (b"n2.l\xffc3", 1), (b"n\xff3.lc3", 0), (b"n\xfe4.obj", 0), (b"n\xff5.asm", 0)];
        for (name, expect) in names {
            let os = std::ffi::OsStr::from_bytes(name);
            let content: &[u8] = if name.ends_with(b".asm") { b"halt\n" } else { &[0x30, 0x00, 0xF0, 0x25] };
            std::fs::write(dir.join(os), content).unwrap();
            let out = spawn_limited(&dir, &[std::ffi::OsStr::new("run"), os, std::ffi::OsStr::new("--minimal")], &[], 10000, None);
            let ok = out.status == Some(expect);
            sink.put(
                &format!("Z06 {} {}", hex(name), hex(content)),
                &if ok { "holds".to_string() } else { format!("differs: `lace run` on a file whose name is not valid UTF-8: status {:?}, expected {}", out.status, expect) },
            );
            let _ = std::fs::remove_file(dir.join(os));
        }
    }
    // object files that are not regular files (a named pipe: no size to stat): the loader must
    // treat the bytes it reads exactly as it treats a regular file with those bytes
    if o.shard == 2 % o.nshards {
        extern "C" {
            fn mkfifo(path: *const std::os::raw::c_char, mode: u32) -> i32;
        }
        let progs: [&[u8]; 5] = [
            &[0x30, 0x00, 0xF0, 0x25],
            &[0x30, 0x00, 0xF0, 0x25, 0x00],
            &[0x30, 0x00, 0xE0, 0x02, 0xF0, 0x22, 0xF0, 0x25, 0x00, 0x4F, 0x00, 0x4B, 0x00, 0x00, 0x12],
            &[0x30],
            &[],
        ];
        // (the writer sends the bytes in one piece, or in pieces of odd lengths with pauses: how the
        // bytes arrive must not matter)
        let chunkings: [&[usize]; 4] = [&[], &[3, 3], &[5], &[1, 1, 1, 2, 7]];
        for (i, (bytes, chunks)) in progs.iter().flat_map(|b| chunkings.iter().map(move |c| (b, c))).enumerate() {
            std::fs::write(dir.join("pipe.lc3"), bytes).unwrap();
            let reg = spawn(&dir, &["run", "pipe.lc3", "--minimal"], &[], 10000);
            let _ = std::fs::remove_file(dir.join("pipe.lc3"));
            let cpath = std::ffi::CString::new(dir.join("pipe.lc3").to_str().unwrap()).unwrap();
            let rc = unsafe { mkfifo(cpath.as_ptr(), 0o600) };
            if rc != 0 {
                continue;
            }
            let fifo = dir.join("pipe.lc3");
            let data = bytes.to_vec();
            let chunks: Vec<usize> = chunks.to_vec();
            let writer = std::thread::spawn(move || {
                if let Ok(mut f) = std::fs::OpenOptions::new().write(true).open(&fifo) {
                    let mut rest: &[u8] = &data;
                    for n in chunks {
                        let n = n.min(rest.len());
                        if n == 0 {
                            break;
                        }
                        let _ = f.write_all(&rest[..n]);
                        let _ = f.flush();
                        rest = &rest[n..];
                        std::thread::sleep(Duration::from_millis(40));
                    }
                    let _ = f.write_all(rest);
                }
            });
            let via = spawn(&dir, &["run", "pipe.lc3", "--minimal"], &[], 10000);
            // in case lace never opened the pipe: a non-blocking reader unblocks the writer
            let unblock = {
                use std::os::unix::fs::OpenOptionsExt;
                std::fs::OpenOptions::new().read(true).custom_flags(0o4000 /* O_NONBLOCK */).open(dir.join("pipe.lc3"))
            };
            let _ = writer.join();
            drop(unblock);
            let _ = std::fs::remove_file(dir.join("pipe.lc3"));
            let same = reg.status == via.status && reg.stdout == via.stdout;
            sink.put(
                &format!("Z06 {} {}", hex(format!("fifo{}", i).as_bytes()), hex(bytes)),
                &if same { "holds".to_string() } else { format!("differs: an object file read through a named pipe (status {:?}) and the same bytes in a regular file (status {:?}) are treated differently", via.status, reg.status) },
            );
        }
    }
    // programs that exactly fill memory up to the implicit HALT at 0xFFFF, one word less, one more
    let mut directed: Vec<Prog> = Vec::new();
    for (i, n) in [0xCFFEusize, 0xCFFF, 0xD000].into_iter().enumerate() {
        if (i + 3) % o.nshards == o.shard {
            // lea r0 #2 / puts / halt / "fits" / zeros
            let mut words: Vec<u16> = vec![0xE002, 0xF022, 0xF025, 0x66, 0x69, 0x74, 0x73, 0];
            words.resize(n, 0);
            directed.push(Prog { orig: 0x3000, words, inp: vec![], stack: false, minimal: true, kind: "fills-memory" });
        }
    }
    for k in 0..per + corpus.len() as u64 {
        if (k as usize) < corpus.len() || k % 3 == 2 {
            // arbitrary bytes offered as .lc3 / .obj
            let bytes: Vec<u8> = if (k as usize) < corpus.len() {
                corpus[k as usize].clone()
            } else {
                let p = gen_random_image(&mut rng);
                let mut b: Vec<u8> = Vec::new();
                b.extend_from_slice(&p.orig.to_be_bytes());
                for w in &p.words {
                    b.extend_from_slice(&w.to_be_bytes());
                }
                match rng.below(5) {
                    0 => {
                        b.pop();
                    }
                    1 => b.push(rng.next() as u8),
                    2 => b.clear(),
                    _ => {}
                }
                b
            };
            // skip images that do not stop within the budget (decided on the in-process run)
            let ext = if rng.chance(1, 2) { "lc3" } else { "obj" };
            let name = format!("b{}.{}", k, ext);
            std::fs::write(dir.join(&name), &bytes).unwrap();
            let stack = rng.chance(1, 2);
            let mut args = vec!["run", name.as_str(), "--minimal"];
            if stack {
                args.extend_from_slice(&["-f", "stack"]);
            }
            let out = spawn(&dir, &args, &[], 4000);
            let req = format!("X06 {} 1 {:x} {} - {}", stack as u8, fuel, hex(name.as_bytes()), hex(&bytes));
            let obs = show_proc(&out);
            if obs != "timeout" {
                sink.put(&req, &obs);
                n_bytes += 1;
            }
            let _ = std::fs::remove_file(dir.join(&name));
            continue;
        }
        if k % 3 == 1 {
            // a real assembly source (whole instruction / directive set, random layout): the bytes
            // `lace compile` writes must be the object-file encoding of the image the assembler
            // model computes from the same text
            let stack = rng.chance(1, 2);
            let n = rng.range(1, 40) as usize;
            let wild = rng.chance(1, 5);
            let prog = crate::asmgen::gen_prog(&mut rng, &crate::asmgen::GenOpts { stmts: n, wild, stack });
            let ps = crate::asmgen::pieces(&mut rng, &prog);
            let text = crate::asmgen::layout(&mut rng, &ps);
            let asm = format!("q{}.asm", k);
            let lc3 = format!("q{}.lc3", k);
            std::fs::write(dir.join(&asm), &text).unwrap();
            let mut args = vec!["compile", asm.as_str(), lc3.as_str()];
            if stack {
                args.extend_from_slice(&["-f", "stack"]);
            }
            let c = spawn(&dir, &args, &[], 10000);
            let bytes = std::fs::read(dir.join(&lc3)).ok();
            let obs = match (&c.status, &bytes) {
                (Some(0), Some(b)) => format!("ok {}", hex(b)),
                (Some(101), _) => "panic".to_string(),
                (Some(_), None) => "fail".to_string(),
                (Some(_), Some(_)) => "fail-but-file-written".to_string(),
                (None, _) => "timeout".to_string(),
            };
            sink.put(&format!("Q06 {} {}", stack as u8, hex(text.as_bytes())), &obs);
            n_prog += 1;
            let _ = std::fs::remove_file(dir.join(&asm));
            let _ = std::fs::remove_file(dir.join(&lc3));
            continue;
        }
        let is_directed = !directed.is_empty();
        let mut p = match directed.pop() {
            Some(d) => d,
            None => gen_structured(&mut rng),
        };
        if p.kind == "rti" {
            continue;
        }
        if rng.chance(1, 4) && !is_directed {
            p.orig = 0x3000;
        }
        let with_orig = !(p.orig == 0x3000 && rng.chance(1, 2));
        let asm = format!("p{}.asm", k);
        let lc3 = format!("p{}.lc3", k);
        std::fs::write(dir.join(&asm), fill_source(&p, with_orig)).unwrap();
        let mut feat: Vec<&str> = Vec::new();
        if p.stack {
            feat.extend_from_slice(&["-f", "stack"]);
        }
        // 1. compile
        let mut args = vec!["compile", asm.as_str(), lc3.as_str()];
        args.extend_from_slice(&feat);
        let c = spawn(&dir, &args, &[], 10000);
        let bytes = std::fs::read(dir.join(&lc3)).ok();
        let req = format!("O06 {}", words_req(if with_orig { Some(p.orig) } else { None }, &p.words));
        let obs = match (&c.status, &bytes) {
            (Some(0), Some(b)) => format!("ok {}", hex(b)),
            (Some(101), _) => "panic".to_string(),
            (Some(s), _) => format!("fail {}", s),
            (None, _) => "timeout".to_string(),
        };
        sink.put(&req, &obs);
        n_prog += 1;
        // 2. run the object file, 3. run the source
        let mut outs = Vec::new();
        for name in [&lc3, &asm] {
            let mut args = vec!["run", name.as_str()];
            if p.minimal {
                args.push("--minimal");
            }
            args.extend_from_slice(&feat);
            outs.push(spawn(&dir, &args, &p.inp, 10000));
        }
        // a generated program that does not stop within the time-out is not a test of this
        // property (the model answers `fuel`): skip it
        if outs.iter().any(|o| o.status.is_none()) {
            let _ = std::fs::remove_file(dir.join(&asm));
            let _ = std::fs::remove_file(dir.join(&lc3));
            continue;
        }
        if let Some(b) = &bytes {
            let req = format!(
                "X06 {} {} {:x} {} {} {}",
                p.stack as u8, p.minimal as u8, fuel, hex(lc3.as_bytes()), hex(&p.inp), hex(b)
            );
            sink.put(&req, &show_proc(&outs[0]));
        }
        let req = format!(
            "Y06 {} {} {:x} {} {} {}",
            p.stack as u8,
            p.minimal as u8,
            fuel,
            hex(asm.as_bytes()),
            hex(&p.inp),
            words_req(if with_orig { Some(p.orig) } else { None }, &p.words)
        );
        sink.put(&req, &show_proc(&outs[1]));
        // direct predicate: object file and source behave identically (status lines name the file)
        let strip = |o: &ProcOut, name: &str| -> (Option<i32>, Vec<u8>) {
            let s = String::from_utf8_lossy(&o.stdout).replace(name, "<file>");
            (o.status, s.into_bytes())
        };
        if strip(&outs[0], &lc3) == strip(&outs[1], &asm) {
            agree_src_obj += 1;
        } else {
            sink.put(&format!("Z06 {} {}", hex(asm.as_bytes()), hex(fill_source(&p, with_orig).as_bytes())), "differs: running the object file and running its source gave different output or status");
        }
        if samples.len() < 3 {
            samples.push(format!(
                "{{\"kind\":\"{}\",\"orig\":\"{:04x}\",\"words\":{},\"compile_status\":{:?},\"run_status\":{:?}}}",
                p.kind, p.orig, p.words.len(), c.status.unwrap_or(-1), outs[0].status.unwrap_or(-1)
            ));
        }
        let _ = std::fs::remove_file(dir.join(&asm));
        let _ = std::fs::remove_file(dir.join(&lc3));
    }
    let stats = format!(
        "{{\"cases\":{},\"programs\":{},\"byte_files\":{},\"source_and_object_agree\":{},\"samples\":[{}]}}",
        sink.n, n_prog, n_bytes, agree_src_obj, samples.join(",")
    );
    sink.finish(o, &stats);
}

fn parse_words(f: &[&str]) -> Option<(Option<u16>, Vec<u16>)> {
    let orig = if f[0] == "-" { None } else { Some(u16::from_str_radix(f[0], 16).ok()?) };
    let n = usize::from_str_radix(f[1], 16).ok()?;
    let mut ws = Vec::new();
    for k in 0..n {
        ws.push(u16::from_str_radix(f.get(2 + k)?, 16).ok()?);
    }
    Some((orig, ws))
}

fn replay_c06(dir: &Path, line: &str) -> Option<String> {
    let f: Vec<&str> = line.split_whitespace().collect();
    match *f.first()? {
        "O06" => {
            let (orig, ws) = parse_words(&f[1..])?;
            let p = Prog { orig: orig.unwrap_or(0x3000), words: ws, inp: vec![], stack: true, minimal: true, kind: "replay" };
            std::fs::write(dir.join("r.asm"), fill_source(&p, orig.is_some())).ok()?;
            let c = spawn(dir, &["compile", "r.asm", "r.lc3", "-f", "stack"], &[], 10000);
            let bytes = std::fs::read(dir.join("r.lc3")).ok();
            Some(match (&c.status, &bytes) {
                (Some(0), Some(b)) => format!("ok {}", hex(b)),
                (Some(101), _) => "panic".to_string(),
                (Some(s), _) => format!("fail {}", s),
                (None, _) => "timeout".to_string(),
            })
        }
        "Q06" => {
            let stack = f[1] != "0";
            std::fs::write(dir.join("r.asm"), unhex(f[2])?).ok()?;
            let _ = std::fs::remove_file(dir.join("r.lc3"));
            let mut args = vec!["compile", "r.asm", "r.lc3"];
            if stack {
                args.extend_from_slice(&["-f", "stack"]);
            }
            let c = spawn(dir, &args, &[], 10000);
            let bytes = std::fs::read(dir.join("r.lc3")).ok();
            Some(match (&c.status, &bytes) {
                (Some(0), Some(b)) => format!("ok {}", hex(b)),
                (Some(101), _) => "panic".to_string(),
                (Some(_), None) => "fail".to_string(),
                (Some(_), Some(_)) => "fail-but-file-written".to_string(),
                (None, _) => "timeout".to_string(),
            })
        }
        "X06" | "Y06" => {
            let stack = f[1] != "0";
            let minimal = f[2] != "0";
            let name = String::from_utf8(unhex(f[4])?).ok()?;
            let inp = unhex(f[5])?;
            if f[0] == "X06" {
                std::fs::write(dir.join(&name), unhex(f[6])?).ok()?;
            } else {
                let (orig, ws) = parse_words(&f[6..])?;
                let p = Prog { orig: orig.unwrap_or(0x3000), words: ws, inp: vec![], stack, minimal, kind: "replay" };
                std::fs::write(dir.join(&name), fill_source(&p, orig.is_some())).ok()?;
            }
            let mut args = vec!["run", name.as_str()];
            if minimal {
                args.push("--minimal");
            }
            if stack {
                args.extend_from_slice(&["-f", "stack"]);
            }
            Some(show_proc(&spawn(dir, &args, &inp, 10000)))
        }
        _ => None,
    }
}

// ------------------------------------------------------------------ C07 / C08

pub struct SrcCase {
    pub src: String,
    pub kind: &'static str,
}

/// Sources for C07/C08: in particular ones whose only error surfaces at emission (a label
/// farther away than its field allows, at statement position `k`, for every PC-relative
/// instruction), ones using the stack mnemonics, and ordinary valid / invalid ones.
pub fn gen_src(rng: &mut Rng) -> SrcCase {
    let filler = ["add r0 r0 #1", "and r1 r1 #0", "not r2 r2", "out", "ldr r1 r2 #3", ".fill x1234", "putn"];
    match rng.below(10) {
        0..=5 => {
            // (mnemonic, field bits, needs stack)
            let forms: [(&str, u32); 10] = [
                ("br", 9), ("brz", 9), ("brnp", 9), ("ld r1", 9), ("ldi r2", 9), ("lea r3", 9),
                ("st r4", 9), ("sti r5", 9), ("jsr", 11), ("call", 10),
            ];
            let (m, bits) = *rng.pick(&forms);
            let lim: i64 = 1 << (bits - 1);
            let before = rng.below(5) as usize;
            let after = rng.below(4) as usize;
            let forward = rng.chance(1, 2);
            let mut s = String::new();
            if rng.chance(1, 3) {
                s.push_str(&format!(".orig x{:04x}\n", rng.below(0x7000)));
            }
            for _ in 0..before {
                s.push_str(*rng.pick(&filler));
                s.push('\n');
            }
            let delta = rng.range(-2, 2);
            if rng.chance(1, 4) {
                // nothing but the label, the padding and the reference, which is the LAST word:
                // d = -(D+2) ; fits iff D+2 <= lim (program of exactly D+2 words)
                let d = (lim - 2 + delta).max(0);
                let pad = if d > 0 && rng.chance(1, 2) {
                    format!(".blkw #{}\n", d)
                } else {
                    ".fill x0\n".repeat(d as usize)
                };
                return SrcCase { src: format!("far halt\n{}{} far\n", pad, m), kind: "label-distance" };
            }
            if rng.chance(1, 6) {
                // the same reference twice (or three times) in a row: the first at the very limit of
                // its field, the next one word too far — equal statements, different verdicts
                let d = (lim - 3 + rng.range(-1, 1)).max(0);
                let reps = 2 + rng.below(2) as usize;
                let refs = format!("{} far\n", m).repeat(reps);
                if forward {
                    // last of the references fits iff D <= lim-1
                    let d = (lim - 1 + rng.range(0, 2)).max(0);
                    s.push_str(&format!("{}.blkw #{}\nfar halt\n", refs, d));
                } else {
                    s.push_str(&format!("far add r0 r0 #0\nhalt\n.blkw #{}\n{}halt\n", d, refs));
                }
                return SrcCase { src: s, kind: "label-distance" };
            }
            if forward {
                // d = D ; fits iff D <= lim-1
                let d = (lim - 1 + delta).max(0);
                s.push_str(&format!("{} far\n.blkw #{}\nfar halt\n", m, d));
            } else {
                // label, HALT, padding, then the (never executed) reference:
                // d = -(D+3) ; fits iff D+3 <= lim
                let d = (lim - 3 + delta).max(0);
                s.push_str(&format!("far add r0 r0 #0\nhalt\n.blkw #{}\n{} far\nhalt\n", d, m));
            }
            for _ in 0..after {
                s.push_str(*rng.pick(&filler));
                s.push('\n');
            }
            SrcCase { src: s, kind: "label-distance" }
        }
        6 => {
            let progs = [
                "push r0\npop r1\nhalt\n",
                "call f\nhalt\nf rets\n",
                "PUSH R3\nhalt\n",
                "lea r0 pop\nhalt\npop .fill x0\n",
                "rets\n",
                "add r0 r0 #1\nhalt\n",
            ];
            SrcCase { src: (*rng.pick(&progs)).to_string(), kind: "stack-mnemonics" }
        }
        7 => {
            let progs = [
                "add r0 r0\nhalt\n",
                "foo bar\n",
                ".stringz \"abc\nhalt\n",
                "a halt\na halt\n",
                "br nowhere\nhalt\n",
                ".orig x3000\n.orig x4000\nhalt\n",
                "add r0 r0 #16\n",
                "trap x100\n",
                "ld r0 #256\n",
                "lbl\n",
            ];
            SrcCase { src: (*rng.pick(&progs)).to_string(), kind: "invalid" }
        }
        _ => {
            let mut s = String::new();
            for _ in 0..rng.range(1, 8) {
                s.push_str(*rng.pick(&filler));
                s.push('\n');
            }
            s.push_str("halt\n");
            SrcCase { src: s, kind: "valid" }
        }
    }
}

fn st(o: &ProcOut) -> String {
    match o.status {
        Some(0) => "0".into(),
        Some(101) => "panic".into(),
        Some(_) => "1".into(),
        None => "timeout".into(),
    }
}

/// Remove `ESC [ … final-byte` sequences (cursor positioning, colours).
fn strip_csi(l: &[u8]) -> Vec<u8> {
    let mut out = Vec::new();
    let mut i = 0;
    while i < l.len() {
        if l[i] == 0x1b && l.get(i + 1) == Some(&b'[') {
            i += 2;
            while i < l.len() && !(0x40..=0x7e).contains(&l[i]) {
                i += 1;
            }
            i += 1;
        } else {
            out.push(l[i]);
            i += 1;
        }
    }
    out
}

/// A line of the shape main.rs's `message()` prints: a word right-aligned in 12 columns, a space,
/// then text.
pub fn is_status_line(l: &[u8]) -> bool {
    // `{left:>12} {right}` starts with padding whenever `left` is shorter than 12 characters,
    // whatever the words are
    l.first() == Some(&b' ') && l.iter().any(|b| !b.is_ascii_whitespace())
}

fn obs_c07(dir: &Path, src: &str, stack: bool) -> String {
    std::fs::write(dir.join("s.asm"), src).unwrap();
    let _ = std::fs::remove_file(dir.join("s.lc3"));
    let feat: Vec<&str> = if stack { vec!["-f", "stack"] } else { vec![] };
    let mut a = vec!["check", "s.asm"];
    a.extend_from_slice(&feat);
    let c = spawn(dir, &a, &[], 20000);
    let mut a = vec!["compile", "s.asm", "s.lc3"];
    a.extend_from_slice(&feat);
    let k = spawn(dir, &a, &[], 20000);
    let mut a = vec!["run", "s.asm", "--minimal"];
    a.extend_from_slice(&feat);
    let r = spawn(dir, &a, &[], 5000);
    // `run` got past assembling iff it announced a second step: main.rs prints one status line of
    // the shape `{left:>12} {right}` per step ("Assembling …", then "Running …"), whatever their wording
    let status_lines = r.stdout.split(|b| *b == b'\n').filter(|l| is_status_line(l)).count();
    let ran = status_lines >= 2;
    let run = if r.status == Some(101) { "panic" } else if ran { "ok" } else { "fail" };
    format!("check={} compile={} run={}", st(&c), st(&k), run)
}

pub fn run_c07(o: &crate::Opts) {
    let mut sink = crate::Sink::new(o);
    let tmp = TmpDir::new(&format!("c07-{}", o.shard));
    let dir = tmp.0.clone();
    if let Some(path) = &o.replay {
        for line in std::fs::read_to_string(path).unwrap().lines() {
            let f: Vec<&str> = line.split_whitespace().collect();
            let obs = (|| {
                let src = String::from_utf8(unhex(f.get(2)?)?).ok()?;
                Some(obs_c07(&dir, &src, *f.get(1)? != "0"))
            })()
            .unwrap_or_else(|| "bad-request".into());
            sink.put(line, &obs);
        }
        sink.finish(o, "{}");
        return;
    }
    let mut rng = Rng::new(o.seed.wrapping_mul(104729) ^ (o.shard as u64) << 32 ^ 0xC07);
    let total: u64 = if o.thorough { 10_000 } else { 320 };
    let per = total / o.nshards as u64;
    let mut kinds: std::collections::BTreeMap<&'static str, u64> = Default::default();
    let mut samples = Vec::new();
    let mut corpus: Vec<(String, bool)> = Vec::new();
    if o.shard == 0 {
        corpus.push(("lea r0 far\n.blkw #300\nfar halt\n".into(), false)); // D12
        corpus.push(("push r0\nhalt\n".into(), false)); // D13
        corpus.push(("push r0\nhalt\n".into(), true));
    }
    for (src, stack) in &corpus {
        sink.put(&format!("S07 {} {}", *stack as u8, hex(src.as_bytes())), &obs_c07(&dir, src, *stack));
        *kinds.entry("corpus").or_default() += 1;
    }
    for _ in 0..per {
        let c = gen_src(&mut rng);
        for stack in [false, true] {
            let obs = obs_c07(&dir, &c.src, stack);
            if samples.len() < 3 && rng.chance(1, 10) {
                samples.push(format!("{{\"kind\":\"{}\",\"stack\":{},\"source\":{:?},\"observed\":\"{}\"}}", c.kind, stack, c.src, obs));
            }
            sink.put(&format!("S07 {} {}", stack as u8, hex(c.src.as_bytes())), &obs);
            *kinds.entry(c.kind).or_default() += 1;
        }
    }
    let kinds_json: Vec<String> = kinds.iter().map(|(k, v)| format!("\"{}\":{}", k, v)).collect();
    let n_cases = sink.n;
    sink.finish(o, &format!("{{\"cases\":{},\"source_kinds\":{{{}}},\"samples\":[{}]}}", n_cases, kinds_json.join(","), samples.join(",")));
}

/// Process ids the next processes of this machine will get: `n` of them, from the one after the
/// most recently allocated (wrapping at the kernel's limit as the kernel does).
fn upcoming_pids(n: u32) -> Vec<u32> {
    let read = |p: &str| std::fs::read_to_string(p).ok().and_then(|s| s.trim().parse::<u32>().ok());
    let last = read("/proc/sys/kernel/ns_last_pid").unwrap_or_else(|| {
        // no such file: the process id of a process created just now
        Command::new(lace_bin()).arg("--version").stdout(Stdio::null()).stderr(Stdio::null()).spawn().map(|mut c| { let id = c.id(); let _ = c.wait(); id }).unwrap_or(std::process::id())
    });
    let max = read("/proc/sys/kernel/pid_max").unwrap_or(4_194_304);
    (1..=n).map(|i| { let p = last as u64 + i as u64; if p >= max as u64 { (p - max as u64 + 300) as u32 } else { p as u32 } }).collect()
}

/// dest kinds: `absent`, `pre:<hex>`, `devfull`, `nodir`
fn obs_c08(dir: &Path, src: &str, stack: bool, dest: &str, lim: Option<u64>) -> String {
    // `stale:`: the process id of the spawned lace must be one of those prepared for; tried again
    // (with more of them) in the rare case that it is not
    for links in [3000u32, 3000, 30000] {
        if let Some(obs) = obs_c08_once(dir, src, stack, dest, lim, links) {
            return obs;
        }
    }
    "st=pid-missed".into()
}

fn obs_c08_once(dir: &Path, src: &str, stack: bool, dest: &str, lim: Option<u64>, links: u32) -> Option<String> {
    use std::os::unix::ffi::OsStrExt;
    // the case runs in a directory of its own: `work/` holds the source, the destination and
    // whatever the command leaves behind; `work/sub/` holds symbolic links and their targets
    let work = dir.join("work");
    let _ = std::fs::remove_dir_all(&work);
    std::fs::create_dir_all(work.join("sub")).unwrap();
    std::fs::write(work.join("s.asm"), src).unwrap();
    // prefixes of the destination kind (regular-file kinds `absent` / `pre:<hex>` only):
    //   nu8:    the destination's file name is not valid UTF-8
    //   long:   the destination's file name has 255 bytes (the file system's limit)
    //   lnkrel: the destination is `sub/link.lc3`, a symbolic link with the relative target
    //           `real.lc3` (which exists with the given contents, or is absent: a dangling link)
    //   lnkabs: the same with an absolute target
    //   hard:   the destination (when it exists) has a second hard link, `sub/other-name.lc3`
    //   stale:  the working directory already holds `.lace-tmp<pid>`, a symbolic link to the
    //           destination, for the process id lace is going to have (and a few thousand others):
    //           compile must refuse without touching anything (it used to write THROUGH that link,
    //           leaving the destination truncated when the write failed)
    //   deep:K  (no kind) the destination is `n/n/…/n`, K components, `n` a link to the working
    //           directory: K <= 40 leads to that directory; beyond, the path cannot be resolved
    //           (ELOOP) — at 41 only when the last component is followed, where compile used to
    //           replace the link `n` by the object file and exit 0
    let (variant, kind) = match dest.split_once(':') {
        Some((v, k)) if ["nu8", "long", "lnkrel", "lnkabs", "hard", "stale", "deep"].contains(&v) => (v, k),
        _ => ("", dest),
    };
    let depth: usize = if variant == "deep" { kind.parse().ok()? } else { 0 };
    let pre: Option<Vec<u8>> = kind.strip_prefix("pre:").map(|h| unhex(h).unwrap_or_default());
    // (argument given to lace, path through which the destination is read afterwards)
    let (dest_arg, read_path): (std::ffi::OsString, PathBuf) = if variant == "deep" {
        std::os::unix::fs::symlink(".", work.join("n")).unwrap();
        let p = vec!["n"; depth].join("/");
        (p.clone().into(), work.join(p))
    } else if kind == "devfull" {
        // a private device node with /dev/full's numbers (1, 7), so that a change which renames a
        // file over its destination cannot clobber the machine's own /dev/full; the real one is
        // used only where no node can be made (not root)
        extern "C" {
            fn mknod(path: *const std::os::raw::c_char, mode: u32, dev: u64) -> i32;
        }
        let node = work.join("devfull");
        let c = std::ffi::CString::new(node.to_str().unwrap()).unwrap();
        let made = unsafe { mknod(c.as_ptr(), 0o020000 | 0o666, (1 << 8) | 7) } == 0;
        if made { ("devfull".into(), node) } else { ("/dev/full".into(), PathBuf::from("/dev/full")) }
    } else if kind == "nodir" {
        ("no-such-dir/out.lc3".into(), work.join("no-such-dir/out.lc3"))
    } else {
        match variant {
            "nu8" => {
                let n = std::ffi::OsStr::from_bytes(b"out\xff\xfe.lc3").to_owned();
                (n.clone(), work.join(n))
            }
            "long" => {
                let n: std::ffi::OsString = format!("{}.lc3", "n".repeat(251)).into();
                (n.clone(), work.join(n))
            }
            "lnkrel" | "lnkabs" => {
                let real = work.join("sub/real.lc3");
                let target: PathBuf = if variant == "lnkrel" { "real.lc3".into() } else { real.clone() };
                std::os::unix::fs::symlink(&target, work.join("sub/link.lc3")).unwrap();
                ("sub/link.lc3".into(), work.join("sub/link.lc3"))
            }
            _ => ("out.lc3".into(), work.join("out.lc3")),
        }
    };
    if let Some(b) = &pre {
        // through the link, if any: the link's target gets the contents
        let p = if variant.starts_with("lnk") { work.join("sub/real.lc3") } else { read_path.clone() };
        std::fs::write(&p, b).unwrap();
        if variant == "hard" {
            std::fs::hard_link(&p, work.join("sub/other-name.lc3")).unwrap();
        }
    }
    let stale_links: Vec<std::ffi::OsString> = if variant == "stale" {
        let names: Vec<std::ffi::OsString> = upcoming_pids(links).iter().map(|p| format!(".lace-tmp{}", p).into()).collect();
        for n in &names {
            std::os::unix::fs::symlink("out.lc3", work.join(n)).unwrap();
        }
        names
    } else {
        Vec::new()
    };
    let mut a: Vec<&std::ffi::OsStr> = vec!["compile".as_ref(), "s.asm".as_ref(), dest_arg.as_os_str()];
    if stack {
        a.push("-f".as_ref());
        a.push("stack".as_ref());
    }
    let k = spawn_limited(&work, &a, &[], 20000, lim);
    if variant == "stale" && !stale_links.contains(&format!(".lace-tmp{}", k.pid).into()) {
        let _ = std::fs::remove_dir_all(&work);
        return None;
    }
    // anything left behind (temporary files; files written to the wrong place)
    let mut expected: Vec<std::ffi::OsString> = vec!["s.asm".into(), "sub".into(), read_path.file_name().map(|n| n.to_owned()).unwrap_or_default()];
    // the prepared links must all still be there, as links; so must `n`
    let is_link = |p: PathBuf| std::fs::symlink_metadata(p).map(|m| m.file_type().is_symlink()).unwrap_or(false);
    let links_gone = stale_links.iter().filter(|n| !is_link(work.join(n))).count() + (variant == "deep" && !is_link(work.join("n"))) as usize;
    let stale_set: std::collections::HashSet<&std::ffi::OsString> = stale_links.iter().collect();
    expected.retain(|n| !n.is_empty());
    let count = |d: &Path, ok: &[std::ffi::OsString]| -> usize {
        std::fs::read_dir(d).map(|rd| rd.filter_map(|e| e.ok()).filter(|e| !ok.contains(&e.file_name()) && !stale_set.contains(&e.file_name())).count()).unwrap_or(0)
    };
    let extra = count(&work, &expected) + count(&work.join("sub"), &["link.lc3".into(), "real.lc3".into(), "other-name.lc3".into()]);
    // the other name of a hard-linked destination keeps the old contents whatever happens
    let other_changed = variant == "hard" && pre.is_some() && std::fs::read(work.join("sub/other-name.lc3")).ok() != pre;
    let extra = extra + other_changed as usize + links_gone;
    let after = if kind == "devfull" {
        use std::os::unix::fs::FileTypeExt;
        match std::fs::symlink_metadata(&read_path) {
            Ok(m) if m.file_type().is_char_device() => "devfull".to_string(),
            Ok(_) => "device-replaced-by-a-file".to_string(),
            Err(_) => "device-removed".to_string(),
        }
    } else if kind == "nodir" {
        if work.join("no-such-dir").exists() { "created".into() } else { "nodir".to_string() }
    } else {
        match std::fs::read(&read_path) {
            Ok(b) => format!("file:{}", hex(&b)),
            Err(_) => "absent".to_string(),
        }
    };
    let _ = std::fs::remove_dir_all(&work);
    Some(format!("st={} dest={} extra={}", st(&k), after, extra))
}

fn lim_tok(lim: Option<u64>) -> String {
    match lim {
        Some(l) => format!("{:x}", l),
        None => "-".into(),
    }
}

pub fn run_c08(o: &crate::Opts) {
    let mut sink = crate::Sink::new(o);
    let tmp = TmpDir::new(&format!("c08-{}", o.shard));
    let dir = tmp.0.clone();
    if let Some(path) = &o.replay {
        for line in std::fs::read_to_string(path).unwrap().lines() {
            let f: Vec<&str> = line.split_whitespace().collect();
            let obs = (|| {
                let src = String::from_utf8(unhex(f.get(2)?)?).ok()?;
                let lim = match f.get(4) {
                    None | Some(&"-") => None,
                    Some(h) => Some(u64::from_str_radix(h, 16).ok()?),
                };
                Some(obs_c08(&dir, &src, *f.get(1)? != "0", f.get(3)?, lim))
            })()
            .unwrap_or_else(|| "bad-request".into());
            sink.put(line, &obs);
        }
        sink.finish(o, "{}");
        return;
    }
    let mut rng = Rng::new(o.seed.wrapping_mul(15485863) ^ (o.shard as u64) << 32 ^ 0xC08);
    let total: u64 = if o.thorough { 6_000 } else { 320 };
    let per = total / o.nshards as u64;
    let mut kinds: std::collections::BTreeMap<String, u64> = Default::default();
    let mut samples = Vec::new();
    // a write that fails after k bytes, for EVERY k from 0 to beyond the object file's length, on a
    // small program (object file: 6 bytes), destination absent / shorter / longer than the object file
    if o.shard == 0 {
        let src = "add r0 r0 #1\nhalt\n";
        for dest in [
            "absent", "pre:0102", "pre:a1a2a3a4a5a6a7a8a9aaabacadaeaf", "nu8:absent", "nu8:pre:0102", "long:absent", "long:pre:0102",
            "lnkrel:absent", "lnkrel:pre:0102", "lnkabs:absent", "lnkabs:pre:a1a2a3a4a5a6a7a8a9aaabacadaeaf",
            "hard:pre:0102", "hard:pre:a1a2a3a4a5a6a7a8a9aaabacadaeaf",
        ] {
            for k in 0..=8u64 {
                let obs = obs_c08(&dir, src, false, dest, Some(k));
                if obs == "st=pid-missed" {
                    // the prepared process ids were all missed (a very busy machine): no observation
                    continue;
                }
                *kinds.entry(format!("limit-sweep:{}", obs.split(' ').next().unwrap())).or_default() += 1;
                sink.put(&format!("S08 0 {} {} {}", hex(src.as_bytes()), dest, lim_tok(Some(k))), &obs);
            }
        }
    }
    // the destination already holds something RELATED to the new object file (object: 6 bytes
    // `3000 1021 f025`): exactly it, it followed by more (the object of a longer earlier version of the
    // program), a proper prefix of it, the same length with another last byte — with and without a
    // failing write
    if o.shard == 1 % o.nshards {
        let src = "add r0 r0 #1\nhalt\n";
        for pre in ["30001021f025", "30001021f025f025", "30001021f0251021f0250000", "30001021", "3000", "30001021f024", "31001021f025", "30001021f02500"] {
            for variant in ["", "lnkrel:", "hard:", "nu8:"] {
                for lim in [None, Some(0u64), Some(4), Some(6)] {
                    let dest = format!("{}pre:{}", variant, pre);
                    let obs = obs_c08(&dir, src, false, &dest, lim);
                    if obs == "st=pid-missed" {
                        continue;
                    }
                    *kinds.entry(format!("related-destination:{}", obs.split(' ').next().unwrap())).or_default() += 1;
                    sink.put(&format!("S08 0 {} {} {}", hex(src.as_bytes()), dest, lim_tok(lim)), &obs);
                }
            }
        }
    }
    // the two defects found by modelling the file system: a stale link with the temporary file's
    // name pointing at the destination (with and without a failing write), and destination paths
    // around the limit of 40 symbolic links
    if o.shard == 0 {
        let src = "add r0 r0 #1\nhalt\n";
        let cases: [(&str, Option<u64>); 8] = [
            ("stale:pre:0102030405060708", Some(3)), ("stale:pre:0102030405060708", None), ("stale:pre:0102", Some(0)), ("stale:pre:0102", Some(8)),
            ("deep:39", None), ("deep:40", None), ("deep:41", None), ("deep:42", None),
        ];
        for (dest, lim) in cases {
            let obs = obs_c08(&dir, src, false, dest, lim);
            if obs == "st=pid-missed" {
                // the prepared process ids were all missed (a very busy machine): no observation
                continue;
            }
            *kinds.entry(format!("{}:{}", dest.split(':').next().unwrap(), obs.split(' ').next().unwrap())).or_default() += 1;
            sink.put(&format!("S08 0 {} {} {}", hex(src.as_bytes()), dest, lim_tok(lim)), &obs);
        }
    }
    for i in 0..per {
        // failure injected at every statement position k of a small program, or no failure
        // a file size limit (a write failing half-way) in two cases out of five: below, around and
        // above the size of the object file; half of those on sources that assemble
        let lim = match rng.below(5) {
            0 => Some(rng.below(4)),
            1 => Some(rng.below(2400)),
            _ => None,
        };
        let n = rng.range(1, 6) as usize;
        let k = if lim.is_some() && rng.chance(1, 2) { n } else { rng.below(n as u64 + 1) as usize }; // k == n: no failure
        // the failing statement is any PC-relative form (CALL needs the stack feature)
        let forms = ["ld r1 far", "ldi r2 far", "lea r3 far", "st r4 far", "sti r5 far", "br far", "brnz far", "jsr far", "call far"];
        let form = *rng.pick(&forms);
        let mut s = String::new();
        for j in 0..n {
            if j == k {
                s.push_str(form);
                s.push('\n');
            } else {
                s.push_str("add r0 r0 #1\n");
            }
        }
        // the reference is out of range either by far, or barely (just beyond the form's own field:
        // 9 bits; 10 for CALL; 11 for JSR)
        let gap = if rng.chance(1, 2) {
            1100
        } else {
            let reach = if form.starts_with("call") { 512 } else if form.starts_with("jsr") { 1024 } else { 256 };
            reach + rng.below(24)
        };
        s.push_str(&format!("halt\n.blkw #{}\nfar .fill x7\n", gap));
        let force_stack = form.starts_with("call") && k < n;
        let src = if i % 5 == 4 { gen_src(&mut rng).src } else { s };
        let dest = match rng.below(5) {
            0 => "absent".to_string(),
            1 | 2 => {
                // shorter and (much) longer than the object file that a successful compile writes:
                // a destination that is not truncated keeps a stale tail
                let len = if rng.chance(1, 2) { rng.below(9) as usize } else { 700 + rng.below(1500) as usize };
                let bytes: Vec<u8> = (0..len).map(|_| rng.next() as u8).collect();
                format!("pre:{}", hex(&bytes))
            }
            3 => "devfull".to_string(),
            _ => "nodir".to_string(),
        };
        let stack = (force_stack && i % 5 != 4) || rng.chance(1, 3);
        // one regular-file destination in three is special: a name that is not valid UTF-8, a name
        // of 255 bytes, a symbolic link (live or dangling, relative or absolute target) in a
        // sub-directory
        let dest = if (dest == "absent" || dest.starts_with("pre:")) && rng.chance(1, 3) {
            format!("{}:{}", rng.pick(&["nu8", "long", "lnkrel", "lnkabs", "hard"]), dest)
        } else {
            dest
        };
        let obs = obs_c08(&dir, &src, stack, &dest, lim);
        if obs == "st=pid-missed" {
            // the prepared process ids were all missed (a very busy machine): no observation
            continue;
        }
        *kinds.entry(format!("{}{}:{}", dest.split(':').next().unwrap(), if lim.is_some() { "+limit" } else { "" }, obs.split(' ').next().unwrap())).or_default() += 1;
        if samples.len() < 3 && rng.chance(1, 8) {
            samples.push(format!("{{\"fail_at\":{},\"statements\":{},\"dest\":\"{}\",\"size_limit\":\"{}\",\"observed\":\"{}\"}}", k, n, dest, lim_tok(lim), obs));
        }
        sink.put(&format!("S08 {} {} {} {}", stack as u8, hex(src.as_bytes()), dest, lim_tok(lim)), &obs);
    }
    let kinds_json: Vec<String> = kinds.iter().map(|(k, v)| format!("\"{}\":{}", k, v)).collect();
    let n_cases = sink.n;
    sink.finish(o, &format!("{{\"cases\":{},\"dest_and_status\":{{{}}},\"samples\":[{}]}}", n_cases, kinds_json.join(","), samples.join(",")));
}

// ------------------------------------------------------------------ C19: real `lace watch` sessions

use std::io::Read as _;
use std::sync::{Arc, Mutex};

/// Run one `lace watch` session: save each source in turn over the watched file and collect the
/// verdict of every re-check (`ok` / `diag` / `none` if no re-check was observed).
/// `stack`: 0 = extension off, 1 = `watch w.asm -f stack`, 2 = `-f stack watch w.asm`
/// `same_stat`: each new version replaces the watched file by a rename of a complete file that
/// has the same modification time as the version it replaces (and, when the generator padded the
/// sources, the same length) — what `cp -p`, `rsync -t` or a build step do; the metadata of the
/// file then says nothing about whether its contents changed.
fn watch_session(dir: &Path, sources: &[Vec<u8>], stack: u8, same_stat: bool) -> Vec<String> {
    let file = dir.join("w.asm");
    std::fs::write(&file, "halt\n").unwrap();
    let args = match stack {
        0 => vec!["watch", "w.asm"],
        1 => vec!["watch", "w.asm", "-f", "stack"],
        _ => vec!["-f", "stack", "watch", "w.asm"],
    };
    let mut child = Command::new(lace_bin())
        .args(&args)
        .current_dir(dir)
        .env("NO_COLOR", "1")
        .stdin(Stdio::null())
        .stdout(Stdio::piped())
        .stderr(Stdio::null())
        .spawn()
        .expect("spawn lace watch");
    let buf: Arc<Mutex<Vec<u8>>> = Arc::new(Mutex::new(Vec::new()));
    let mut out = child.stdout.take().unwrap();
    let b2 = buf.clone();
    let reader = std::thread::spawn(move || {
        let mut chunk = [0u8; 4096];
        loop {
            match out.read(&mut chunk) {
                Ok(0) | Err(_) => break,
                Ok(n) => b2.lock().unwrap().extend_from_slice(&chunk[..n]),
            }
        }
    });
    // wait for the watcher to be up: it clears the screen (ESC [ 2 J) and announces itself with two
    // status lines (whatever their wording)
    const CLEAR: &[u8] = b"\x1b[2J";
    let after_clear = |b: &[u8]| -> Option<usize> { (0..b.len().saturating_sub(CLEAR.len() - 1)).rev().find(|&i| &b[i..i + CLEAR.len()] == CLEAR) };
    let start = Instant::now();
    while start.elapsed() < Duration::from_millis(5000) {
        let b = buf.lock().unwrap().clone();
        if let Some(i) = after_clear(&b) {
            if b[i..].split(|c| *c == b'\n').filter(|l| !strip_csi(l).iter().all(|c| c.is_ascii_whitespace())).count() >= 2 {
                break;
            }
        }
        std::thread::sleep(Duration::from_millis(20));
    }
    std::thread::sleep(Duration::from_millis(300));
    // calibration: one save of a text that certainly assembles; the last non-blank line of what the
    // re-check prints is this build's "success" line, whatever its wording
    let last_line = |seg: &[u8]| -> Vec<u8> {
        seg.split(|c| *c == b'\n').map(strip_csi).filter(|l| !l.iter().all(|c| c.is_ascii_whitespace())).last().unwrap_or_default()
    };
    let success_line: Vec<u8> = {
        let mark = buf.lock().unwrap().len();
        std::fs::write(&file, "halt\n\n").unwrap();
        let t0 = Instant::now();
        let mut last_len = mark;
        let mut quiet_since = Instant::now();
        loop {
            std::thread::sleep(Duration::from_millis(40));
            let len = buf.lock().unwrap().len();
            if len != last_len {
                last_len = len;
                quiet_since = Instant::now();
            }
            let seen = after_clear(&buf.lock().unwrap()[mark..]).is_some();
            if (seen && quiet_since.elapsed() > Duration::from_millis(700)) || t0.elapsed() > Duration::from_millis(5000) {
                break;
            }
        }
        let seg: Vec<u8> = buf.lock().unwrap()[mark..].to_vec();
        match after_clear(&seg) {
            Some(i) => last_line(&seg[i + CLEAR.len()..]),
            None => Vec::new(),
        }
    };
    let mut verdicts = Vec::new();
    // (text, what its re-check printed): saving the same text again must print the same again
    let mut prev: Option<(Vec<u8>, Vec<u8>)> = None;
    for src in sources {
        if let Ok(Some(_)) = child.try_wait() {
            verdicts.push("none".to_string());
            continue;
        }
        let mark = buf.lock().unwrap().len();
        if same_stat {
            let mtime = std::fs::metadata(&file).and_then(|m| m.modified()).ok();
            // staged OUTSIDE the watched folder (lace does not re-check on a rename inside it)
            let stage = dir.with_extension("stage");
            let _ = std::fs::create_dir_all(&stage);
            let tmp = stage.join("w.asm");
            std::fs::write(&tmp, src).unwrap();
            if let Some(t) = mtime {
                if let Ok(f) = std::fs::OpenOptions::new().write(true).open(&tmp) {
                    let _ = f.set_modified(t);
                }
            }
            std::fs::rename(&tmp, &file).unwrap();
        } else {
            std::fs::write(&file, src).unwrap();
        }
        // a re-check is announced by "Re-checking"; its verdict follows; events may be delivered
        // twice (truncate + write), so wait for quiet and take the last verdict
        let t0 = Instant::now();
        let mut last_len = mark;
        let mut quiet_since = Instant::now();
        loop {
            std::thread::sleep(Duration::from_millis(40));
            let len = buf.lock().unwrap().len();
            if len != last_len {
                last_len = len;
                quiet_since = Instant::now();
            }
            let seen = after_clear(&buf.lock().unwrap()[mark..]).is_some();
            if (seen && quiet_since.elapsed() > Duration::from_millis(900)) || t0.elapsed() > Duration::from_millis(6000) {
                break;
            }
        }
        // a re-check clears the screen, prints status lines, then either one more status line
        // (success) or a diagnostic (anything that is not a status line): no wording is relied on
        let seg: Vec<u8> = buf.lock().unwrap()[mark..].to_vec();
        let v = match after_clear(&seg) {
            None => "none",
            Some(i) => {
                let tail = &seg[i + CLEAR.len()..];
                // success = the output ends with a status line beyond the three banner lines
                // (warnings may stand in between); anything else that is not blank = a diagnostic
                // success = the re-check's output ends with this build's success line (learnt from
                // the calibration save); anything else = a diagnostic
                let diag = success_line.is_empty() || last_line(tail) != success_line;
                let this = (src.clone(), tail.to_vec());
                let unstable = matches!(&prev, Some(p) if p.0 == this.0 && p.1 != this.1);
                prev = Some(this);
                if unstable { "differs-from-the-previous-re-check-of-the-same-text" } else if diag { "diag" } else { "ok" }
            }
        };
        // the watcher gave up (it does when the file cannot be read as text)
        std::thread::sleep(Duration::from_millis(30));
        let v = if let Ok(Some(_)) = child.try_wait() { "exited" } else { v };
        verdicts.push(v.to_string());
    }
    let _ = child.kill();
    let _ = child.wait();
    let _ = reader.join();
    let _ = std::fs::remove_dir_all(dir.with_extension("stage"));
    verdicts
}

fn check_verdict(dir: &Path, src: &[u8], stack: bool) -> String {
    std::fs::write(dir.join("c.asm"), src).unwrap();
    let mut a = vec!["check", "c.asm"];
    if stack {
        a.extend_from_slice(&["-f", "stack"]);
    }
    match spawn(dir, &a, &[], 20000).status {
        Some(0) => "ok".into(),
        Some(101) => "panic".into(),
        Some(_) => "diag".into(),
        None => "timeout".into(),
    }
}

/// C19 (process mode): every re-check of `lace watch` must equal a fresh `lace check`.
pub fn run_c19w(o: &crate::Opts) {
    let mut sink = crate::Sink::new(o);
    let tmp = TmpDir::new(&format!("c19w-{}", o.shard));
    let dir = tmp.0.clone();
    // `code` = flag placement (0 off, 1 after, 2 before the subcommand) + 4 × delivery mode
    let run_one = |dir: &Path, code: u8, srcs: &[Vec<u8>]| -> String {
        let stack = code % 4;
        let w = watch_session(dir, srcs, stack, code / 4 == 1);
        let fresh: Vec<String> = srcs.iter().map(|s| check_verdict(dir, s, stack != 0)).collect();
        format!("watch={} fresh={}", w.join(","), fresh.join(","))
    };
    let req_of = |stack: u8, srcs: &[Vec<u8>]| -> String {
        let mut s = format!("W19 {} {:x}", stack, srcs.len());
        for x in srcs {
            s.push(' ');
            s.push_str(&hex(x));
        }
        s
    };
    if let Some(path) = &o.replay {
        for line in std::fs::read_to_string(path).unwrap().lines() {
            let f: Vec<&str> = line.split_whitespace().collect();
            let obs = (|| {
                let stack: u8 = f.get(1)?.parse().ok()?;
                let srcs: Option<Vec<Vec<u8>>> = f[3..].iter().map(|h| unhex(h)).collect();
                Some(run_one(&dir, stack, &srcs?))
            })()
            .unwrap_or_else(|| "bad-request".into());
            sink.put(line, &obs);
        }
        sink.finish(o, "{}");
        return;
    }
    let mut rng = Rng::new(o.seed.wrapping_mul(9176) ^ (o.shard as u64) << 32 ^ 0xC19);
    // building blocks: valid, lexer failure, failure after labels were recorded (parser, backpatch,
    // emission), sources sharing label names with their predecessors (defining or only using them)
    let pool: [&str; 15] = [
        // assembles, with a warning on standard output (saved twice: the same output twice)
        ".blkw #-32768\nhalt\n",
        "halt\n.blkw #-32767\nx .fill x1\n",
        "push r0\npop r1\nhalt\n",
        "start call f\nhalt\nf rets\n",
        "lea r0 pop\nhalt\npop .fill x0\n",
        "start add r0 r0 #1\nloop brnzp loop\nhalt\n",
        "loop add r0 r0 #1\nstart halt\n",
        "start add r0 r0 #1\n\"unterminated\n",
        "start add r0 r0 #1\nloop add r0 r0\nhalt\n",
        "start ld r0 missing\nhalt\n",
        "ld r0 start\nhalt\n",
        "br loop\nhalt\n",
        "start lea r0 far\n.blkw #300\nfar halt\n",
        "data .fill x1\nld r1 data\nhalt\n",
        "ld r1 data\nhalt\nhalt\ndata .fill x2\n",
    ];
    let sessions = if o.thorough { 6 } else { 1 };
    let mut n: u64 = 0;
    // directed: texts that assemble with a warning on standard output, each saved twice in a row
    // (a re-check of an unchanged text must print what the first one printed), around other texts
    if o.shard == 5 % o.nshards {
        let w1 = pool[0].as_bytes().to_vec();
        let w2 = pool[1].as_bytes().to_vec();
        let srcs: Vec<Vec<u8>> = vec![w1.clone(), w1.clone(), pool[5].as_bytes().to_vec(), w2.clone(), w2.clone(), w1.clone(), w1];
        let obs = run_one(&dir, 0, &srcs);
        sink.put(&req_of(0, &srcs), &obs);
    }
    for _ in 0..sessions {
        let len = rng.range(3, 6) as usize;
        let mut srcs: Vec<String> = (0..len).map(|_| (*rng.pick(&pool)).to_string()).collect();
        // the same text saved twice in a row
        if rng.chance(1, 2) {
            let k = rng.below(srcs.len() as u64) as usize;
            let t = srcs[k].clone();
            srcs.insert(k, t);
        }
        // the flag: absent, after the subcommand, before it
        let mut stack = ((o.shard as u64 + n) % 3) as u8;
        // every other session: versions of equal length delivered by rename with the old mtime
        if (o.shard as u64 / 3 + n) % 2 == 1 {
            let max = srcs.iter().map(|s| s.len()).max().unwrap_or(0) + 2;
            for s in srcs.iter_mut() {
                let k = max - s.len();
                s.push(';');
                s.push_str(&"p".repeat(k - 1));
            }
            stack += 4;
        }
        let mut srcs: Vec<Vec<u8>> = srcs.into_iter().map(|s| s.into_bytes()).collect();
        // one session in four: a version that ends in the middle of a multi-byte character (what an
        // editor caught half-way through a save leaves), or contains a stray continuation byte:
        // not text — `check` refuses it and the watcher gives up
        if (o.shard as u64 + n) % 4 == 3 {
            let k = 1 + rng.below(srcs.len() as u64 - 1) as usize;
            let bad: &[u8] = if rng.chance(1, 2) { b"halt ; caf\xc3" } else { b"halt\n; \xe2\x82\nhalt\n" };
            srcs[k] = bad.to_vec();
        }
        let obs = run_one(&dir, stack, &srcs);
        sink.put(&req_of(stack, &srcs), &obs);
        n += 1;
    }
    let n_cases = sink.n;
    sink.finish(o, &format!("{{\"cases\":{},\"watch_sessions\":{},\"samples\":[]}}", n_cases, n));
}

// ------------------------------------------------------------------ C09 (process mode)

/// C09 at process level, in both output modes: `lace debug --command <non-mutating script>` and
/// `lace run` of the same source with the same input must give the same stdout and exit status.
pub fn run_c09p(o: &crate::Opts) {
    let mut sink = crate::Sink::new(o);
    let tmp = TmpDir::new(&format!("c09p-{}", o.shard));
    let dir = tmp.0.clone();
    // `via_stdin`: the script (ending in `quit`) arrives on standard input, immediately followed —
    // after the `;` or newline that ends `quit` — by the program's own input; the command reader
    // must leave every byte after that delimiter to the program
    let one = |dir: &Path, src: &str, script: &str, inp: &[u8], stack: bool, minimal: bool, via_stdin: Option<char>| -> String {
        std::fs::write(dir.join("d.asm"), src).unwrap();
        let mut common: Vec<&str> = Vec::new();
        if minimal {
            common.push("--minimal");
        }
        if stack {
            common.extend_from_slice(&["-f", "stack"]);
        }
        let d = match via_stdin {
            None => {
                let mut a = vec!["debug", "d.asm", "--command", script];
                a.extend_from_slice(&common);
                spawn(dir, &a, inp, 15000)
            }
            Some(delim) => {
                let mut a = vec!["debug", "d.asm"];
                a.extend_from_slice(&common);
                let mut all = script.as_bytes().to_vec();
                // '\r' stands for a CR LF line ending (the line break is the LF; the CR is blank
                // space at the end of the command)
                if delim == '\r' {
                    all.extend_from_slice(b"\r\n");
                } else {
                    all.push(delim as u8);
                }
                all.extend_from_slice(inp);
                spawn(dir, &a, &all, 15000)
            }
        };
        let mut a = vec!["run", "d.asm"];
        a.extend_from_slice(&common);
        let r = spawn(dir, &a, inp, 15000);
        if d.status.is_none() || r.status.is_none() {
            return "skip-timeout".to_string();
        }
        if d.status == r.status && d.stdout == r.stdout {
            "holds".to_string()
        } else {
            format!(
                "differs: debug status {:?} run status {:?}; debug stdout {} run stdout {}",
                d.status, r.status, hex(&d.stdout), hex(&r.stdout)
            )
        }
    };
    if let Some(path) = &o.replay {
        for line in std::fs::read_to_string(path).unwrap().lines() {
            let f: Vec<&str> = line.split_whitespace().collect();
            let obs = (|| {
                let stack = *f.get(1)? != "0";
                let minimal = *f.get(2)? != "0";
                let src = String::from_utf8(unhex(f.get(3)?)?).ok()?;
                let script = String::from_utf8(unhex(f.get(4)?)?).ok()?;
                let inp = unhex(f.get(5)?)?;
                let via = match f.get(6) {
                    Some(&"S3b") => Some(';'),
                    Some(&"S0a") => Some('\n'),
                    Some(&"S0d") => Some('\r'),
                    _ => None,
                };
                Some(one(&dir, &src, &script, &inp, stack, minimal, via))
            })()
            .unwrap_or_else(|| "bad-request".into());
            sink.put(line, &obs);
        }
        sink.finish(o, "{}");
        return;
    }
    let mut rng = Rng::new(o.seed.wrapping_mul(31337) ^ (o.shard as u64) << 32 ^ 0xC09F);
    let total: u64 = if o.thorough { 3000 } else { 160 };
    let per = total / o.nshards as u64;
    let mut n_min = 0u64;
    let mut n_stdin = 0u64;
    let mut n_inter = 0u64;
    for _ in 0..per {
        let p = loop {
            let p = gen_structured(&mut rng);
            if p.kind != "rti" {
                break p;
            }
        };
        let n = p.words.len();
        let mut c = crate::dbg::decorate(&mut rng, &p, "D09", vec![], 0);
        // one pair in three: script on standard input, the program's input right behind it
        let via = match rng.below(8) {
            0 => Some(';'),
            1 => Some('\n'),
            2 => Some('\r'),
            _ => None,
        };
        // half of those: the script ends in `continue` instead of `quit` — the program then runs
        // to its end WITH the debugger attached, reading its input from the same stream (no
        // breakpoints, so nothing pauses it on the way)
        let interleaved = via.is_some() && rng.chance(1, 2);
        if interleaved {
            c.breaks.clear();
        }
        let mut lines: Vec<String> = Vec::new();
        for _ in 0..rng.below(10) {
            let cmd = crate::dbg::rand_nonmutating(&mut rng, p.orig, n, &c.labels);
            // with the script on standard input, an instruction executed before `quit` would read
            // the rest of the script as its input: only inspection commands then
            if via.is_some() && cmd.resumes() {
                continue;
            }
            if interleaved && matches!(cmd, crate::dbg::Cmd::BreakAdd(_)) {
                continue;
            }
            lines.push(crate::dbg::spell_cmd(&mut rng, &cmd));
        }
        if interleaved {
            lines.push("continue".into());
        } else if !p.inp.is_empty() || via.is_some() || rng.chance(1, 2) {
            lines.push("quit".into());
        }
        c.cmds = vec![];
        let script = lines.join(if via == Some('\r') { "\r\n" } else if rng.chance(1, 2) { ";" } else { "\n" });
        // REG prints a table whose shape depends on the mode but not on the debugger; fine in both
        let minimal = rng.chance(1, 2);
        if minimal {
            n_min += 1;
        }
        let src = c.source();
        // interleaved: whatever input the program leaves unread is read by the debugger as
        // commands when the program has ended; keep it to characters that spell no command
        let inp: Vec<u8> = if interleaved { p.inp.iter().map(|b| b"#$%&*()!?<>@~"[*b as usize % 13]).collect() } else { p.inp.clone() };
        let obs = one(&dir, &src, &script, &inp, p.stack, minimal, via);
        if obs == "skip-timeout" {
            continue;
        }
        if via.is_some() {
            n_stdin += 1;
        }
        if interleaved {
            n_inter += 1;
        }
        sink.put(
            &format!("Z09 {} {} {} {} {} {}", p.stack as u8, minimal as u8, hex(src.as_bytes()), hex(script.as_bytes()), hex(&inp),
                match via { Some(';') => "S3b", Some('\r') => "S0d", Some(_) => "S0a", None => "A" }),
            &obs,
        );
    }
    let n_cases = sink.n;
    sink.finish(o, &format!("{{\"cases\":{},\"process_pairs_minimal\":{},\"script_on_stdin_before_program_input\":{},\"of_those_program_reads_while_attached\":{},\"samples\":[]}}", n_cases, n_min, n_stdin, n_inter));
}
