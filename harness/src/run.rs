//! C03: whole-image runs (load → run loop → stop) against the model of `from_raw` + `run`.
use crate::cap::{hex, unhex, Capture};
use crate::progs::{gen_random_image, gen_structured, Prog};
use crate::prng::Rng;
use crate::vm::{guarded, mem_diff, set_features, show_regs, Outcome};
use lace::verif::Event;
use lace::RunEnvironment;

pub fn fnv(pcs: &[u16]) -> u64 {
    let mut h: u64 = 0xcbf29ce484222325;
    for pc in pcs {
        for b in pc.to_le_bytes() {
            h ^= b as u64;
            h = h.wrapping_mul(0x100000001b3);
        }
    }
    h
}

pub struct RunCase {
    pub stack: bool,
    pub minimal: bool,
    pub fuel: u64,
    pub inp: Vec<u8>,
    /// origin followed by the program words (may be empty)
    pub image: Vec<u16>,
}

impl RunCase {
    pub fn from_prog(p: &Prog, fuel: u64) -> RunCase {
        let mut image = vec![p.orig];
        image.extend_from_slice(&p.words);
        RunCase { stack: p.stack, minimal: p.minimal, fuel, inp: p.inp.clone(), image }
    }
    pub fn request(&self) -> String {
        let mut s = format!(
            "X03 {} {} {:x} {} {:x}",
            self.stack as u8, self.minimal as u8, self.fuel, hex(&self.inp), self.image.len()
        );
        for w in &self.image {
            s.push_str(&format!(" {:04x}", w));
        }
        s
    }
    pub fn parse(line: &str) -> Option<RunCase> {
        let f: Vec<&str> = line.split_whitespace().collect();
        if f.len() < 6 || f[0] != "X03" {
            return None;
        }
        let n = usize::from_str_radix(f[5], 16).ok()?;
        let mut image = Vec::new();
        for k in 0..n {
            image.push(u16::from_str_radix(f.get(6 + k)?, 16).ok()?);
        }
        Some(RunCase {
            stack: f[1] != "0",
            minimal: f[2] != "0",
            fuel: u64::from_str_radix(f[3], 16).ok()?,
            inp: unhex(f[4])?,
            image,
        })
    }
}

/// Run on the real `from_raw` + `run`; returns (observation line, predicate failures).
pub fn run_case(cap: &mut Capture, c: &RunCase) -> String {
    set_features(c.stack);
    lace::set_minimal(c.minimal);
    let mut env_slot: Option<RunEnvironment> = None;
    let image = c.image.clone();
    let load = guarded(|| {
        env_slot = Some(RunEnvironment::from_raw(&image).expect("from_raw"));
    });
    match load {
        Outcome::Exit(code) => return format!("loadexit {}", code),
        Outcome::Panic(_) => return "loadpanic".to_string(),
        Outcome::Fuel => return "loadfuel".to_string(),
        Outcome::Ok => {}
    }
    let mut env = env_slot.unwrap();
    let shadow: Vec<u16> = env.verif_mem().to_vec();
    let orig = env.verif_orig();
    cap.set_stdin(&c.inp);
    lace::verif::set_fuel(Some(c.fuel));
    lace::verif::set_logging(true);
    cap.begin();
    let outcome = guarded(|| env.run());
    let (out, _err) = cap.end();
    let events = lace::verif::take_events();
    lace::verif::set_logging(false);
    lace::verif::set_fuel(None);
    let left = cap.drain_stdin();
    let pcs: Vec<u16> = events
        .iter()
        .filter_map(|e| if let Event::Exec(pc) = e { Some(*pc) } else { None })
        .collect();
    // direct predicate on the implementation: no fetch outside [orig, 0xFE00)
    let oob = pcs.iter().filter(|pc| **pc < orig || **pc >= 0xFE00).count();
    let head = match outcome {
        Outcome::Ok => "done".to_string(),
        Outcome::Exit(code) => format!("exit {}", code),
        Outcome::Fuel => "fuel".to_string(),
        Outcome::Panic(_) => return format!("panic | {} {}", pcs.len(), oob),
    };
    let (d, _) = mem_diff(&env.verif_mem()[..], &shadow);
    format!(
        "{} {} |{} | {} {} | {} {:016x} {}",
        head,
        show_regs(&env),
        d,
        hex(&out),
        left,
        pcs.len(),
        fnv(&pcs),
        oob
    )
}

fn corpus() -> Vec<RunCase> {
    let mk = |orig: u16, words: &[u16], inp: &[u8], stack: bool| RunCase {
        stack,
        minimal: true,
        fuel: 5000,
        inp: inp.to_vec(),
        image: std::iter::once(orig).chain(words.iter().copied()).collect(),
    };
    vec![
        // empty file, origin only, image ending exactly at / one above the top of memory
        RunCase { stack: false, minimal: true, fuel: 100, inp: vec![], image: vec![] },
        mk(0x3000, &[], &[], false),
        mk(0xFFFF, &[], &[], false),
        mk(0xFFFE, &[0xF025], &[], false),
        mk(0xFFFF, &[0xF025], &[], false),
        mk(0xFDFF, &[0x1021], &[], false),
        // D11: PUTSP order; D10: PUTS across the top of memory is a C02 case
        mk(0x3000, &[0xE002, 0xF024, 0xF025, 0x6261, 0x0063, 0x0000], &[], false),
        // GETC at end of input: emulator error, exit status 1
        mk(0x3000, &[0xF020, 0xF025], &[], false),
        mk(0x3000, &[0xF023, 0xF021, 0xF025], &[0xC3, 0xA9], false),
        // jump to 0xFFFF is a normal end; jump below origin / to 0xFE00 is an exception
        mk(0x3000, &[0x2201, 0xC040, 0xFFFF], &[], false),
        mk(0x3000, &[0x2201, 0xC040, 0x2FFF], &[], false),
        mk(0x3000, &[0x2201, 0xC040, 0xFE00], &[], false),
        // opcode 0xD with the feature off: exit status 1
        mk(0x3000, &[0xD440, 0xF025], &[], false),
        mk(0x3000, &[0xD440, 0xD080, 0xF025], &[], true),
        // strings containing ESC followed by what looks like the rest of an escape sequence: every
        // character goes out on its own (in --minimal mode a lone ESC is dropped, nothing else)
        mk(0x3000, &[0xE002, 0xF022, 0xF025, 0x1B, 0x5B, 0x31, 0x6D, 0x48, 0x69, 0x21, 0x0A, 0x1B, 0x41, 0], &[], false),
        RunCase { stack: false, minimal: false, fuel: 5000, inp: vec![], image: vec![0x3000, 0xE002, 0xF022, 0xF025, 0x1B, 0x5B, 0x31, 0x6D, 0x48, 0x69, 0x21, 0x0A, 0x1B, 0x41, 0] },
        mk(0x3000, &[0xE002, 0xF024, 0xF025, 0x5B1B, 0x6D31, 0x6948, 0x1B21, 0x0041, 0], &[], false),
        RunCase { stack: false, minimal: false, fuel: 5000, inp: vec![], image: vec![0x3000, 0xE002, 0xF024, 0xF025, 0x5B1B, 0x6D31, 0x6948, 0x1B21, 0x0041, 0] },
        // the same through IN (echo) and OUT
        mk(0x3000, &[0xF023, 0xF023, 0xF023, 0xF023, 0xF021, 0xF025], &[0x1B, 0x5B, 0x6D, 0x41], false),
        // images loaded above user space: the first fetch is already outside [origin, 0xFE00)
        mk(0xFE00, &[0xF025], &[], false),
        mk(0xFE01, &[0xE002, 0xF022, 0xF025, 0x4F, 0x55, 0x54, 0], &[], false),
        mk(0xFE10, &[0xE002, 0xF022, 0xF025, 0x4F, 0x55, 0x54, 0], &[], false),
        mk(0xFF00, &[0xF021, 0xF025], &[], false),
        mk(0xFFF0, &[0x1021, 0xF025], &[], true),
        mk(0xFFFE, &[0x1021], &[], false),
        // PUTS / PUTSP over a memory in which NO word has a zero low byte: the program fills every
        // word outside itself with '#', then prints from `text`; exactly one pass over memory
        // (65,536 characters, the last one being the word just below the start)
        RunCase {
            stack: false, minimal: true, fuel: 400_000, inp: vec![],
            image: vec![0x3001, 0x2209, 0xE40A, 0x2608, 0x7280, 0x14A1, 0x16FF, 0x0BFC, 0xE004, 0xF022, 0xF025, 0x0023, 0xFFF4, 0x0040],
        },
        RunCase {
            stack: false, minimal: false, fuel: 400_000, inp: vec![],
            image: vec![0x3001, 0x2209, 0xE40A, 0x2608, 0x7280, 0x14A1, 0x16FF, 0x0BFC, 0xE004, 0xF024, 0xF025, 0x2323, 0xFFF4, 0x4040],
        },
    ]
}

pub fn run(o: &crate::Opts) {
    let mut cap = Capture::install();
    let mut sink = crate::Sink::new(o);
    if let Some(path) = &o.replay {
        let tmp = crate::cli::TmpDir::new("c03-replay");
        for line in std::fs::read_to_string(path).unwrap().lines() {
            // terminal sessions (harness id C03T) are replayed through the pty harness
            if line.starts_with("T03 ") || line.starts_with("K03 ") {
                match crate::tty::replay_line(&tmp.0, line) {
                    Some(obs) => sink.put(line, &obs),
                    None => sink.put(line, "bad-request"),
                }
                continue;
            }
            match RunCase::parse(line) {
                Some(c) => {
                    let obs = run_case(&mut cap, &c);
                    sink.put(line, &obs);
                }
                None => sink.put(line, "bad-request"),
            }
        }
        sink.finish(o, "{}");
        return;
    }
    let mut rng = Rng::new(o.seed.wrapping_mul(1000003) ^ (o.shard as u64) << 32 ^ 0xC03);
    let mut kinds: std::collections::BTreeMap<&'static str, u64> = Default::default();
    let mut samples: Vec<String> = Vec::new();
    if o.shard == 0 {
        for c in corpus() {
            let obs = run_case(&mut cap, &c);
            sink.put(&c.request(), &obs);
            *kinds.entry("corpus").or_default() += 1;
        }
    }
    let total: u64 = if o.thorough { 160_000 } else { 16_000 };
    let per = total / o.nshards as u64;
    for k in 0..per {
        let p = if k % 4 == 3 { gen_random_image(&mut rng) } else { gen_structured(&mut rng) };
        let fuel = if p.kind == "random-image" { 3000 } else { 20000 };
        let c = RunCase::from_prog(&p, fuel);
        let obs = run_case(&mut cap, &c);
        *kinds.entry(p.kind).or_default() += 1;
        if samples.len() < 2 && rng.chance(1, 200) {
            samples.push(format!(
                "{{\"kind\":\"{}\",\"orig\":\"{:04x}\",\"words\":{},\"input_bytes\":{},\"outcome\":\"{}\"}}",
                p.kind,
                p.orig,
                p.words.len(),
                p.inp.len(),
                obs.split(' ').next().unwrap_or("")
            ));
        }
        sink.put(&c.request(), &obs);
    }
    let kinds_json: Vec<String> = kinds.iter().map(|(k, v)| format!("\"{}\":{}", k, v)).collect();
    let stats = format!(
        "{{\"cases\":{},\"program_kinds\":{{{}}},\"samples\":[{}]}}",
        sink.n,
        kinds_json.join(","),
        samples.join(",")
    );
    sink.finish(o, &stats);
}
