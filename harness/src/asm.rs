//! Assembler correspondence (C05; the runner and the generators are shared with C01, C04, C17,
//! C18, C19).
//!
//! Request `A01 <stack 0/1> <hex of the UTF-8 source>`; observation
//!   `ok <orig|-> <n> <words…> | <offs:len …> | <breakpoints …>`
//!   `diag <kind> <offs> <len>`  (`- -` for errors without a label)
//!   `panic`
//! plus, checked directly on the implementation and reported as distinct outcomes:
//!   `render-panic <kind>`   `format!("{:?}", report)` panicked
//!   `label-outside <kind> <offs> <len>`   a label of the report does not lie inside the source
use crate::asmgen::*;
use crate::cap::{hex, unhex, Capture};
use crate::prng::Rng;
use crate::vm::{guarded, set_features, Outcome};
use miette::Report;
use std::collections::BTreeMap;

pub struct Assembled {
    pub orig: Option<u16>,
    pub words: Vec<u16>,
    pub spans: Vec<(usize, usize)>,
    pub bps: Vec<u16>,
}

/// What the `lace compile` / `lace run` path does with a source text.
thread_local! {
    /// the stage `assemble_real` was in when it returned an error: 0 lex/parse, 1 backpatch, 2 emit
    static STAGE: std::cell::Cell<u8> = const { std::cell::Cell::new(0) };
}

fn assemble_real(src: &'static str) -> Result<Assembled, Report> {
    STAGE.with(|s| s.set(0));
    let mut air = lace::AsmParser::new(src)?.parse()?;
    STAGE.with(|s| s.set(1));
    air.backpatch()?;
    STAGE.with(|s| s.set(2));
    let mut words = Vec::with_capacity(air.len());
    let mut spans = Vec::with_capacity(air.len());
    for stmt in &air {
        words.push(stmt.emit()?);
        spans.push((stmt.span.offs(), stmt.span.len()));
    }
    Ok(Assembled { orig: air.orig(), words, spans, bps: air.breakpoints.iter().map(|b| b.address).collect() })
}

/// Kind identifier of a report: one per error constructor of lace.
pub fn diag_kind(r: &Report) -> String {
    let code = r.code().map(|c| c.to_string());
    match code.as_deref() {
        Some("lex::dir") => "lexDir".into(),
        Some("lex::str_lit") => "lexStr".into(),
        Some("lex::bad_lit") => "lexBadLit".into(),
        Some("lex::unknown") => "lexUnknown".into(),
        Some("lex::stack_extension_not_enabled") => "lexStack".into(),
        Some("preproc::bad_lit") => "preprocBadLit".into(),
        Some("preproc::stringz") => "preprocNoStr".into(),
        Some("parse::duplicate_label") => "dupLabel".into(),
        Some("parse::unexpected_eof") => "eof".into(),
        Some("parse::too_many_statements") => "tooMany".into(),
        // (an out-of-range literal and any other unexpected token share this code; they differ in
        // the wording of their labels only, which is free: one kind here, and `check` reads the
        // model's `litRange` as `unexpected` too)
        Some("parse::unexpected_token") => "unexpected".into(),
        Some(other) => format!("code:{other}"),
        // the three errors without a diagnostic code are told apart by the stage that raised them
        // (their wording is free): a second `.orig` while parsing, an undefined label while
        // backpatching, a label out of reach while emitting
        None => match STAGE.with(|s| s.get()) {
            0 => "origTwice".into(),
            1 => "labelNotFound".into(),
            _ => "offsetTooLarge".into(),
        },
    }
}

pub struct AsmRunner {
    pub cap: Capture,
    pub max_ms: u128,
}

impl AsmRunner {
    pub fn new() -> Self {
        AsmRunner { cap: Capture::install(), max_ms: 0 }
    }

    /// Assemble `text` with the real lace code; `reset` = call `lace::reset_state()` first.
    pub fn observe(&mut self, stack: bool, text: &str, reset: bool) -> String {
        self.cap.begin();
        let t0 = std::time::Instant::now();
        let obs = observe_core(stack, text, reset);
        self.max_ms = self.max_ms.max(t0.elapsed().as_millis());
        let _ = self.cap.end();
        obs
    }
}

/// Assemble on the current thread (no output capture of its own).
pub fn observe_core(stack: bool, text: &str, reset: bool) -> String {
    let src: &'static str = Box::leak(text.to_string().into_boxed_str());
    set_features(stack);
    if reset {
        lace::reset_state();
    }
    let mut result: Option<Result<Assembled, Report>> = None;
    let outcome = guarded(|| result = Some(assemble_real(src)));
    match (outcome, result) {
        (Outcome::Ok, Some(Ok(a))) => {
            let mut s = format!("ok {} {}", a.orig.map(|o| format!("{:04x}", o)).unwrap_or("-".into()), a.words.len());
            for w in &a.words {
                s.push_str(&format!(" {:04x}", w));
            }
            s.push_str(" |");
            for (o, l) in &a.spans {
                s.push_str(&format!(" {}:{}", o, l));
            }
            s.push_str(" |");
            for b in &a.bps {
                s.push_str(&format!(" {:04x}", b));
            }
            s
        }
        (Outcome::Ok, Some(Err(report))) => {
            let kind = diag_kind(&report);
            let labels: Vec<(usize, usize)> =
                report.labels().map(|l| l.map(|x| (x.offset(), x.len())).collect()).unwrap_or_default();
            // direct predicates on the implementation
            if let Outcome::Panic(_) = guarded(|| {
                let _ = format!("{:?}", report);
            }) {
                return format!("render-panic {kind}");
            }
            for (o, l) in &labels {
                if o + l > src.len() {
                    return format!("label-outside {kind} {o} {l}");
                }
            }
            match labels.first() {
                Some((o, l)) => format!("diag {kind} {o} {l}"),
                None => format!("diag {kind} - -"),
            }
        }
        (Outcome::Panic(_), _) => "panic".into(),
        (Outcome::Exit(c), _) => format!("exit {c}"),
        (Outcome::Fuel, _) => "fuel".into(),
        (Outcome::Ok, None) => "harness-error".into(),
    }
}

pub fn request(stack: bool, text: &str) -> String {
    format!("A01 {} {}", stack as u8, hex(text.as_bytes()))
}

pub fn parse_request(line: &str) -> Option<(bool, String)> {
    let f: Vec<&str> = line.split_whitespace().collect();
    if f.len() != 3 || f[0] != "A01" {
        return None;
    }
    Some((f[1] != "0", String::from_utf8(unhex(f[2])?).ok()?))
}

/// Minimised witnesses of every assembler defect found so far (run first, on shard 0).
pub fn corpus() -> Vec<(bool, String)> {
    let mut v: Vec<(bool, String)> = Vec::new();
    let mut add = |s: &str| v.push((true, s.to_string()));
    // D1: negative LDR/STR offsets spilled into the base-register field
    for s in ["ldr r0 r1 #-1", "str r0 r1 #-32", "ldr r7 r0 x-1", "str r2 r7 #31", "ldr r0 r1 #-33", "ldr r0 r1 #32"] {
        add(s);
    }
    // D2: upper half of the unsigned ranges
    for s in [".orig x8000", ".orig xFFFF\nhalt", "trap x80", "trap xFF", "trap x100", "trap #-1", ".orig #-1", "trap x7F"] {
        add(s);
    }
    // D3: negative literal PC offsets
    for s in ["br #-2", "ld r0 #-5", "jsr #-1024", "halt\nhalt\nbr #-3", "lea r1 x-100", "br #255", "br #256", "br #-256", "br #-257", "jsr #1023", "jsr #1024"] {
        add(s);
    }
    // D4: preprocessor tokens where an operand is expected
    for s in ["add r0 .break", "add r0 r0 .fill x3", "br .stringz \"a\"", "jsr .blkw 1", "ld r1 .blkw #1", ".orig .break", "trap .fill 1", "push .break", ".fill x3", "lbl .break", "call .break"] {
        add(s);
    }
    // D5: hex fall-back slicing inside a multi-byte character
    for s in ["xé", "0x😀", "x1é", "add r0 r0 xé", "br xé\nxé halt", "X→ halt", "x-8001", "x;", "x", "0x"] {
        add(s);
    }
    // D6: label distance 0x8000 / 0x8001
    for s in [
        "br x\n.blkw x7FFF\nx halt",
        "br x\n.blkw x8000\nx halt",
        "br x\n.blkw x7FFE\nx halt",
        "x halt\n.blkw x7FFE\nbr x",
        "x halt\n.blkw x7FFF\nbr x",
        "br x\n.blkw xFFFC\nx halt",
        "br x\n.blkw xFFFD\nx halt",
        "jsr x\n.blkw #1023\nx halt",
        "jsr x\n.blkw #1024\nx halt",
        "x halt\n.blkw #1022\njsr x",
        "x halt\n.blkw #1023\njsr x",
        "call x\n.blkw #511\nx halt",
        "call x\n.blkw #512\nx halt",
        "x halt\n.blkw #510\ncall x",
        "x halt\n.blkw #511\ncall x",
    ] {
        add(s);
    }
    // D7: 65,535 statements and more
    for s in [
        ".blkw xFFFF",
        ".blkw xFFFF\nhalt",
        ".blkw xFFFE\nhalt",
        ".blkw xFFFE\nhalt\nhalt",
        ".blkw xFFFF\n.break",
        ".blkw xFFFF\nlbl",
        ".blkw xFFFF\n.blkw xFFFF",
        ".blkw #-1\nhalt",
        ".blkw xFFFE\nbr #-2",
        ".blkw xFFFE\nlbl br lbl",
    ] {
        add(s);
    }
    // D23: statement at byte 0 / abutting the previous operand
    for s in ["halt", ".fill x5", "ret\nhalt", "lbl br lbl.fill x3", "br lbl\"a\"", "rets", ".stringz \"ab\""] {
        add(s);
    }
    // C01-1: a comment between a data directive and its operand
    for s in [".fill ; the answer\n x2A\nhalt", "msg .stringz ; greeting\n \"hi\"", ".blkw ;c\n#2", ".fill ;a\n;b\n\n ; c\n x1", ".fill ;c", ".stringz ;c\n", ".orig ;c\n x3000", "add r0 r0 ;c\n #1"] {
        add(s);
    }
    // D13-like: stack mnemonics with the feature off, any case, label position
    for s in ["push r0", "PUSH r0", "rets", "call x\nx rets", "pop: halt", "br push"] {
        v.push((false, s.to_string()));
        v.push((true, s.to_string()));
    }
    // miscellany: end of input inside constructs, register rule, strings
    let mut add = |s: &str| v.push((true, s.to_string()));
    for s in [
        "", " ", ";", "lbl", "lbl:", "add", "add r0", "add r0 r0", ".fill", ".blkw", ".stringz", ".orig", "\"", "\"a", "\"a\\",
        "\"a\\\"", ".stringz \"a\\", ".stringz \"\\", "r1", "r12", "r1add", "r8", "R7:", "r1\0", "r1\0halt", "é", "add é",
        "halt é", "lbl é", "lbl\nlbl", "a halt\na halt", ".orig x3000\n.orig x3000", "br nowhere", ".end halt", "halt .end é",
        ".stringz \"é😀\\q\\n\"", ".stringz \"a\nb\"", "#5", "x5", "r5", "trap", "trap r0", "add r0 r0 \"s\"", "add r0, r0, #15;c",
        "halt;c", "#1;c", ".blkw #-65535", ".fill #65535", ".fill #65536", ".fill x10000", ".fill xFFFFg", ".fill #-32769",
        "lbl .orig x3000 lbl2 halt", ".break .break halt .break", "halt ;é", "add r0 r0 ;é", "add r0 r0\t;\u{2028}",
    ] {
        add(s);
    }
    v
}

/// Size extremes (slow; a handful per run).
fn extremes(k: u64) -> (bool, String) {
    let s = match k % 20 {
        0 => ".blkw xFFFF\n".repeat(2),
        1 => format!("br far\n.blkw x7FFE\nfar halt\n.blkw x7FFF\nback br far\n"),
        2 => "halt\n".repeat(65_535),
        3 => "halt\n".repeat(65_536),
        4 => format!("{}lbl add r0 r0 #1\nbr lbl\n", "halt\n".repeat(65_530)),
        5 => format!(".stringz \"{}\"\n.blkw xFF00", "a".repeat(300)),
        6 => format!("far halt\n.blkw x8000\nbr far\n"),
        7 => format!("lea r0 far\n.blkw x8001\nfar halt\n"),
        8 => format!(".blkw xFFFF\n.blkw xFFFF\n.blkw xFFFF\nhalt"),
        9 => format!(".orig xFFFF\n.blkw xFFFE\nlast halt\n.break\n"),
        // data directives around the 65,535-statement limit in every order
        10 => ".blkw xFFFF\n.fill x1\n.fill x2\n.blkw #1\n".to_string(),
        11 => ".blkw xFFFE\n.fill x1\n.blkw #0\n.fill x2\n.blkw x1\nhalt\n".to_string(),
        12 => format!("{}.blkw #1\n.fill x3\n.blkw x0\n", ".fill x1\n".repeat(65_536)),
        13 => ".blkw xFFFF\n.stringz \"ab\"\n.blkw #2\n.fill x1\n".to_string(),
        14 => format!(".blkw xFFF0\n{}.blkw #3\n", ".fill x7\n".repeat(20)),
        // very long runs of comment lines / blank lines / separators before and after a program
        15 => format!("{}lea r0 msg\nputs\nhalt\nmsg .stringz \"hi\"\n", "; a comment line\n".repeat(200_000)),
        16 => format!("halt\n{}add r0 r0\n", ";c\n".repeat(150_000)),
        17 => format!("{}halt{}", "\n".repeat(300_000), " ,:\t\r".repeat(100_000)),
        18 => format!("halt {}", "; x ".repeat(200_000)),
        _ => format!("{}\nhalt\n", "lbl0 ".repeat(1) + &";\n".repeat(100_000)),
    };
    (true, s)
}

pub struct Stats {
    pub gens: BTreeMap<String, u64>,
    pub outcomes: BTreeMap<String, u64>,
    pub len_hist: [u64; 8],
    pub samples: Vec<String>,
}

fn json_escape(s: &str) -> String {
    let mut o = String::new();
    for c in s.chars() {
        match c {
            '"' => o.push_str("\\\""),
            '\\' => o.push_str("\\\\"),
            '\n' => o.push_str("\\n"),
            '\r' => o.push_str("\\r"),
            '\t' => o.push_str("\\t"),
            c if (c as u32) < 0x20 => o.push_str(&format!("\\u{:04x}", c as u32)),
            c => o.push(c),
        }
    }
    o
}

/// One generated case: (generator name, stack flag, text).
pub fn gen_case(seed: u64, idx: u64) -> (String, bool, String) {
    let mut rng = Rng::new(seed.wrapping_mul(0x1000193).wrapping_add(idx).wrapping_mul(31) ^ 0xA5E);
    let stack = rng.chance(3, 4);
    let size = match rng.below(10) {
        0 => 1,
        1..=5 => 1 + rng.below(6) as usize,
        6..=8 => 4 + rng.below(20) as usize,
        _ => 20 + rng.below(60) as usize,
    };
    let class = rng.below(100);
    if class < 22 {
        // well-formed programs under a random layout
        let p = gen_prog(&mut rng, &GenOpts { stmts: size, wild: false, stack });
        let ps = pieces(&mut rng, &p);
        return ("valid".into(), stack, layout(&mut rng, &ps));
    }
    if class < 34 {
        // syntactically well-formed, operands / labels possibly out of range
        let p = gen_prog(&mut rng, &GenOpts { stmts: size, wild: true, stack: true });
        let ps = pieces(&mut rng, &p);
        return ("wild".into(), stack, layout(&mut rng, &ps));
    }
    if class < 40 {
        return ("soup".into(), stack, gen_soup(&mut rng));
    }
    let wild = rng.chance(1, 3);
    let p = gen_prog(&mut rng, &GenOpts { stmts: size.min(12), wild, stack: true });
    let mut ps = pieces(&mut rng, &p);
    let name;
    if class < 68 {
        let mut names = Vec::new();
        for _ in 0..1 + rng.below(3) {
            names.push(mutate_tokens(&mut rng, &mut ps));
        }
        name = names[0].to_string();
        let text = if rng.chance(1, 3) { layout_plain(&ps) } else { layout(&mut rng, &ps) };
        return (name, stack, text);
    }
    if class < 74 {
        mutate_abut_comment(&mut rng, &mut ps);
        return ("abut-comment".into(), stack, layout(&mut rng, &ps));
    }
    let text = if rng.chance(1, 2) { layout_plain(&ps) } else { layout(&mut rng, &ps) };
    if class < 88 {
        let mut t = mutate_wide(&mut rng, &text);
        if rng.chance(1, 4) {
            t = mutate_wide(&mut rng, &t);
        }
        return ("wide-char".into(), stack, t);
    }
    ("bytes".into(), stack, mutate_bytes(&mut rng, &text))
}

pub fn run(o: &crate::Opts) {
    let mut runner = AsmRunner::new();
    let mut sink = crate::Sink::new(o);
    if let Some(path) = &o.replay {
        for line in std::fs::read_to_string(path).unwrap().lines() {
            match parse_request(line) {
                Some((stack, text)) => {
                    let obs = runner.observe(stack, &text, true);
                    sink.put(line, &obs);
                }
                None => sink.put(line, "bad-request"),
            }
        }
        sink.finish(o, "{}");
        return;
    }
    let mut st = Stats { gens: BTreeMap::new(), outcomes: BTreeMap::new(), len_hist: [0; 8], samples: Vec::new() };
    let mut do_case = |runner: &mut AsmRunner, sink: &mut crate::Sink, gen: &str, stack: bool, text: &str| {
        let obs = runner.observe(stack, text, true);
        *st.gens.entry(gen.to_string()).or_insert(0) += 1;
        let mut cls = obs.split(' ').take(2).collect::<Vec<_>>();
        if cls.first() == Some(&"ok") {
            cls.truncate(1);
        }
        *st.outcomes.entry(cls.join(":")).or_insert(0) += 1;
        let b = match text.len() {
            0..=7 => 0,
            8..=31 => 1,
            32..=127 => 2,
            128..=511 => 3,
            512..=2047 => 4,
            2048..=65535 => 5,
            _ => 6,
        };
        st.len_hist[b] += 1;
        if st.samples.len() < 5 && text.len() < 160 && sink.n % 397 == 3 {
            st.samples.push(format!(
                "{{\"generator\":\"{}\",\"stack\":{},\"text\":\"{}\",\"observed\":\"{}\"}}",
                gen,
                stack,
                json_escape(text),
                json_escape(&obs.chars().take(120).collect::<String>())
            ));
        }
        sink.put(&request(stack, text), &obs);
    };
    let mut corpus_n = 0;
    if o.shard == 0 {
        for (stack, text) in corpus() {
            do_case(&mut runner, &mut sink, "corpus", stack, &text);
            corpus_n += 1;
        }
    }
    // size extremes: few, spread over the shards
    let n_ext: u64 = if o.thorough { 40 } else { 20 };
    for k in 0..n_ext {
        if (k as usize) % o.nshards == o.shard {
            let (stack, text) = extremes(k);
            do_case(&mut runner, &mut sink, "extreme", stack, &text);
        }
    }
    // numerals of every size (with and without a literal prefix) in every operand position, label
    // position and directive operand position: whatever looks at such a token — the range checks,
    // the hints of the diagnostics — must survive values beyond u16 / u32 / u64 / u128
    {
        const SLOTS: &[&str] = &[
            "add r0 r0 {}", "add r0 {} r1", "add {} r0 r1", "and r1 r1 {}", "not r1 {}", "ldr r0 r1 {}", "str r0 {} #1",
            "br {}", "brnzp {}", "ld r0 {}", "ld {} x", "lea r1 {}", "st r1 {}", "sti r1 {}", "ldi r1 {}", "jsr {}", "jsrr {}",
            "jmp {}", "trap {}", ".fill {}", ".blkw {}", ".stringz {}", ".orig {}", "{} halt", "{}", "{} .fill x1", "push {}",
            "call {}", "x halt\nbr {}", "{} {}", "halt {}",
        ];
        const NUMERALS: &[&str] = &[
            "0", "7", "65535", "65536", "99999", "2147483647", "2147483648", "4294967295", "4294967296", "10000000000",
            "18446744073709551615", "18446744073709551616", "99999999999999999999999",
            "340282366920938463463374607431768211455", "340282366920938463463374607431768211456",
            "00000000000000000000000000000000000000000000000001", "-1", "-4294967296", "+4294967296", "1e9", "4294967296x",
        ];
        let mut k = 0usize;
        for slot in SLOTS {
            for num in NUMERALS {
                for pre in ["", "#", "x", "0x", "#-", "x-"] {
                    k += 1;
                    if k % o.nshards != o.shard {
                        continue;
                    }
                    let text = format!("{}\nhalt\n", slot.replace("{}", &format!("{}{}", pre, num)));
                    do_case(&mut runner, &mut sink, "numeral-slots", k % 3 != 0, &text);
                }
            }
        }
    }
    let total: u64 = if o.thorough { 2_000_000 } else { 30_000 };
    for idx in 0..total {
        if (idx as usize) % o.nshards != o.shard {
            continue;
        }
        let (gen, stack, text) = gen_case(o.seed, idx);
        do_case(&mut runner, &mut sink, &gen, stack, &text);
    }
    let show = |m: &BTreeMap<String, u64>| {
        m.iter().map(|(k, v)| format!("\"{}\":{}", json_escape(k), v)).collect::<Vec<_>>().join(",")
    };
    let stats = format!(
        "{{\"cases\":{},\"corpus\":{},\"generators\":{{{}}},\"outcomes\":{{{}}},\"text_bytes_hist_8_32_128_512_2k_64k\":{:?},\"max_case_ms\":{},\"samples\":[{}]}}",
        sink.n,
        corpus_n,
        show(&st.gens),
        show(&st.outcomes),
        st.len_hist,
        runner.max_ms,
        st.samples.join(",")
    );
    sink.finish(o, &stats);
}

// ------------------------------------------------------------------------------------------
// C19: sequences of sources on one thread

pub fn seq_request(stack: bool, reset: bool, texts: &[String]) -> String {
    seq_request_n(stack, reset as u64, texts)
}

/// `resets`: 0 = no reset between the sources, k ≥ 1 = `reset_state()` called k times between them
/// (a reset is a reset, however often it is repeated).
pub fn seq_request_n(stack: bool, resets: u64, texts: &[String]) -> String {
    let mut s = format!("A19 {} {:x} {}", stack as u8, resets, texts.len());
    for t in texts {
        s.push(' ');
        s.push_str(&hex(t.as_bytes()));
    }
    s
}

/// `F19`: the same history, answered per element by `same` (this thread and a fresh thread agree)
/// or `differs !fresh <fresh observation>`; the model's answer is `same` throughout (theorem
/// `runSeq_reset_eq_map`), so the size of the sources costs the model nothing.
pub fn fresh_only(obs: &str) -> String {
    obs.split(" ## ")
        .map(|e| match e.split_once(" !fresh ") {
            Some((_, f)) => format!("differs !fresh {}", &f[..f.len().min(300)].replace(" ## ", " ")),
            None => "same".to_string(),
        })
        .collect::<Vec<_>>()
        .join(" ## ")
}

pub fn parse_seq_request(line: &str) -> Option<(bool, bool, Vec<String>)> {
    let f: Vec<&str> = line.split_whitespace().collect();
    if f.len() < 4 || (f[0] != "A19" && f[0] != "F19") {
        return None;
    }
    let mut texts = Vec::new();
    for h in &f[4..] {
        texts.push(String::from_utf8(unhex(h)?).ok()?);
    }
    Some((f[1] != "0", f[2] != "0", texts))
}

fn parse_seq_resets(line: &str) -> u64 {
    line.split_whitespace().nth(2).and_then(|h| u64::from_str_radix(h, 16).ok()).unwrap_or(1)
}

/// Assemble the texts in order on this thread (`reset` = `lace::reset_state()` before each).
/// With `reset`, each text is also assembled on a fresh thread; a difference is appended to the
/// element as ` !fresh <observation>` (and then disagrees with the model).
pub fn observe_seq(runner: &mut AsmRunner, stack: bool, reset: bool, texts: &[String]) -> String {
    observe_seq_n(runner, stack, reset as u64, texts)
}

pub fn observe_seq_n(runner: &mut AsmRunner, stack: bool, resets: u64, texts: &[String]) -> String {
    let reset = resets > 0;
    // start from a clean table, like a new process
    lace::reset_state();
    let mut parts = Vec::new();
    for t in texts {
        for _ in 1..resets {
            lace::reset_state();
        }
        let mut obs = runner.observe(stack, t, reset);
        if reset {
            let t2 = t.clone();
            let fresh = std::thread::spawn(move || observe_core(stack, &t2, false)).join().unwrap_or("thread-panic".into());
            if fresh != obs {
                obs.push_str(" !fresh ");
                obs.push_str(&fresh);
            }
        }
        parts.push(obs);
    }
    lace::reset_state();
    parts.join(" ## ")
}

/// Sources that share label names, fail at different stages, and use different origins.
fn seq_element(rng: &mut Rng, seed: u64, idx: u64, k: u64) -> String {
    const TEMPLATES: &[&str] = &[
        "a halt\nb halt\n",
        "a halt\n",
        ".orig x4000\na add r0 r0 #1\nbr a\n",
        ".orig x200\nb lea r0 a\na .fill x1\n",
        "a halt\nb add r0\n",            // fails after a, b were recorded
        "a halt\nb halt\nc é\n",          // lexer failure (before anything is recorded)
        "a halt\nb br nowhere\n",         // fails in backpatch
        "a halt\n.blkw #300\nbr a\n",     // fails in emit
        "a halt\na halt\n",               // duplicate inside one source
        "br b\nb halt\n",
        "loop add r1 r1 #-1\nbrp loop\nhalt\n",
        "LOOP halt\nloop halt\n",
        ".break\nstart halt\n.break\n",
        "",
        "start",
        "start push r0\n",
        // letter case: upper-case stack mnemonics (rejected without the flag), then sources whose
        // first identifier with an upper-case letter is an instruction or a trap
        "PUSH R0\n",
        "start PUSH r0\nhalt\n",
        "Pop r1\nRETS\n",
        "LEA R0 a\na HALT\n",
        "HALT\nadd r0 r0 #1\n",
        "Add R1 R1 #1\nhalt\n",
        "x CALL x\n",
        // labels that differ in letter case only, and a reference spelled like neither
        "Loop add r0 r0 #1\nLOOP halt\nld r0 loop\n",
        "Val .fill x1\nVAL .fill x2\nlea r0 val\nhalt\n",
        "ptr .fill x1\nbr PTR\n",
    ];
    match rng.below(4) {
        0 | 1 => pk2(rng, TEMPLATES).replace("\\n", "\n"),
        _ => gen_case(seed ^ 0x19, idx * 8 + k).2,
    }
}

fn pk2(rng: &mut Rng, xs: &[&'static str]) -> &'static str {
    *rng.pick(xs)
}

pub fn run_seq(o: &crate::Opts) {
    let mut runner = AsmRunner::new();
    let mut sink = crate::Sink::new(o);
    if let Some(path) = &o.replay {
        for line in std::fs::read_to_string(path).unwrap().lines() {
            match parse_seq_request(line) {
                Some((stack, reset, texts)) => {
                    let n = if reset { parse_seq_resets(line).max(1) } else { 0 };
                    let obs = observe_seq_n(&mut runner, stack, n, &texts);
                    sink.put(line, &if line.starts_with("F19") { fresh_only(&obs) } else { obs });
                }
                None => sink.put(line, "bad-request"),
            }
        }
        sink.finish(o, "{}");
        return;
    }
    let total: u64 = if o.thorough { 60_000 } else { 2_400 };
    let mut by_len = [0u64; 7];
    let (mut with_reset, mut without_reset, mut fresh_diffs, mut elems, mut failed_elems) = (0u64, 0u64, 0u64, 0u64, 0u64);
    let mut samples: Vec<String> = Vec::new();
    // very many resets between two sources (counters of resets must not wrap into an old state):
    // a label defined by the first source, possibly a failing one, must be gone for the second
    if o.shard == 3 % o.nshards {
        for k in [2u64, 255, 256, 257, 65_535, 65_536, 65_537, 131_072] {
            for first in ["keep halt\n", "keep halt\nbad add r0\n"] {
                let texts: Vec<String> = vec![first.into(), "lea r0 keep\nhalt\n".into(), "keep .fill x1\n".into(), "br keep\n".into()];
                let obs = observe_seq_n(&mut runner, false, k, &texts);
                sink.put(&seq_request_n(false, k, &texts), &obs);
            }
        }
    }
    // histories containing a program with thousands of labels (a table that has grown large must
    // be emptied by the reset like any other), followed by sources that redefine / reference /
    // forward-reference some of its names
    if o.shard == 2 % o.nshards {
        // (thorough tier: 30,000 labels — the model's symbol table is a list, one such source costs
        // it about a minute and a half)
        let mut sizes = vec![(5000usize, true), (4000, true), (1200, true), (600, false)];
        if o.thorough {
            sizes.push((30_000, true));
        }
        for (nlabels, reset) in sizes {
            let mut big = String::new();
            for k in 0..nlabels {
                big.push_str(&format!("tbl{} add r0 r0 #0\n", k));
            }
            big.push_str("halt\n");
            let texts: Vec<String> = if nlabels >= 30_000 {
                // a huge table, then a small source that leaves labels behind, then sources using them
                vec![big.clone(), "keep halt\nmore halt\n".into(), "lea r0 keep\nmore halt\n".into(), "br tbl7\n".into()]
            } else { vec![
                big.clone(),
                "tbl100 halt\n".into(),
                "ld r0 tbl100\nhalt\n".into(),
                "br tbl7\nadd r0 r0 #1\ntbl7 halt\n".into(),
                big,
                "lea r1 tbl0\n".into(),
            ] };
            let obs = observe_seq(&mut runner, false, reset, &texts);
            sink.put(&seq_request(false, reset, &texts), &obs);
        }
    }
    // the same with tables of 20,000 … 65,000 labels, on the implementation alone (`F19`): this
    // thread against a fresh thread, element by element
    if o.shard == 4 % o.nshards {
        for (nlabels, resets) in [(20_000usize, 1u64), (28_672, 1), (28_673, 1), (30_000, 1), (40_000, 2), (57_344, 1), (57_345, 1), (65_000, 1)] {
            let mut big = String::from(".orig x0\n");
            for k in 0..nlabels {
                big.push_str(&format!("tbl{} add r0 r0 #0\n", k));
            }
            big.push_str("halt\n");
            let texts: Vec<String> = vec![
                big.clone(),
                "keep halt\nmore halt\n".into(),
                "lea r0 keep\nmore halt\n".into(),
                "br tbl7\n".into(),
                "tbl100 halt\nld r0 tbl100\n".into(),
                big,
                "lea r1 tbl0\n".into(),
            ];
            let obs = observe_seq_n(&mut runner, false, resets, &texts);
            fresh_diffs += obs.matches(" !fresh ").count() as u64;
            let rq = seq_request_n(false, resets, &texts).replacen("A19", "F19", 1);
            sink.put(&rq, &fresh_only(&obs));
        }
    }
    for idx in 0..total {
        if (idx as usize) % o.nshards != o.shard {
            continue;
        }
        let mut rng = Rng::new(o.seed.wrapping_mul(0xC19).wrapping_add(idx) ^ 0x5EC);
        let n = 2 + rng.below(5);
        let stack = rng.chance(3, 4);
        let reset = rng.chance(4, 5);
        let mut texts: Vec<String> = (0..n).map(|k| seq_element(&mut rng, o.seed, idx, k)).collect();
        if rng.chance(1, 4) {
            // the same source again, later in the history
            let t = texts[0].clone();
            texts.push(t);
            texts.truncate(6);
        }
        let obs = observe_seq(&mut runner, stack, reset, &texts);
        by_len[texts.len()] += 1;
        if reset { with_reset += 1 } else { without_reset += 1 }
        fresh_diffs += obs.matches(" !fresh ").count() as u64;
        for part in obs.split(" ## ") {
            elems += 1;
            if !part.starts_with("ok") {
                failed_elems += 1;
            }
        }
        if samples.len() < 3 && sink.n % 41 == 7 {
            samples.push(format!(
                "{{\"stack\":{},\"reset\":{},\"sources\":[{}],\"observed\":\"{}\"}}",
                stack,
                reset,
                texts.iter().map(|t| format!("\"{}\"", json_escape(&t.chars().take(60).collect::<String>()))).collect::<Vec<_>>().join(","),
                json_escape(&obs.chars().take(160).collect::<String>())
            ));
        }
        sink.put(&seq_request(stack, reset, &texts), &obs);
    }
    let stats = format!(
        "{{\"sequences\":{},\"with_reset\":{},\"without_reset\":{},\"elements\":{},\"failed_elements\":{},\"fresh_thread_differences\":{},\"by_length\":{:?},\"samples\":[{}]}}",
        sink.n, with_reset, without_reset, elems, failed_elems, fresh_diffs, by_len, samples.join(",")
    );
    sink.finish(o, &stats);
}
