//! C02: single-instruction execution on arbitrary machine states.
use crate::cap::{hex, Capture};
use crate::prng::Rng;
use lace::verif::{VerifExit, VerifFuel};
use lace::RunEnvironment;
use std::panic::{catch_unwind, AssertUnwindSafe};

#[derive(Clone, Debug)]
pub struct VmCase {
    pub stack: bool,
    pub minimal: bool,
    pub instr: u16,
    pub pc: u16,
    pub cc: u8, // 0 none, 1 p, 2 z, 4 n
    pub regs: [u16; 8],
    pub orig: u16,
    pub mem: Vec<(u16, u16)>,
    pub inp: Vec<u8>,
}

impl VmCase {
    pub fn request(&self) -> String {
        let mut s = format!(
            "X02 {} {} {:04x} {:04x} {}",
            self.stack as u8, self.minimal as u8, self.instr, self.pc, self.cc
        );
        for r in self.regs {
            s.push_str(&format!(" {:04x}", r));
        }
        s.push_str(&format!(" {:04x} {:x}", self.orig, self.mem.len()));
        for (a, v) in &self.mem {
            s.push_str(&format!(" {:04x} {:04x}", a, v));
        }
        s.push(' ');
        s.push_str(&hex(&self.inp));
        s
    }
}

impl VmCase {
    /// Inverse of [`VmCase::request`] (for `--replay`).
    pub fn parse(line: &str) -> Option<VmCase> {
        let f: Vec<&str> = line.split_whitespace().collect();
        if f.len() < 17 || f[0] != "X02" {
            return None;
        }
        let h = |s: &str| u32::from_str_radix(s, 16).ok();
        let mut regs = [0u16; 8];
        for i in 0..8 {
            regs[i] = h(f[6 + i])? as u16;
        }
        let nmem = h(f[15])? as usize;
        let mut mem = Vec::new();
        for k in 0..nmem {
            mem.push((h(f[16 + 2 * k])? as u16, h(f[17 + 2 * k])? as u16));
        }
        let inp = crate::cap::unhex(f.get(16 + 2 * nmem)?)?;
        Some(VmCase {
            stack: f[1] != "0",
            minimal: f[2] != "0",
            instr: h(f[3])? as u16,
            pc: h(f[4])? as u16,
            cc: h(f[5])? as u8,
            regs,
            orig: h(f[14])? as u16,
            mem,
            inp,
        })
    }
}

/// Outcome class of running lace code under `catch_unwind` with the exit hook armed.
pub enum Outcome {
    Ok,
    Exit(i32),
    Fuel,
    Panic(String),
}

pub fn guarded<F: FnOnce()>(f: F) -> Outcome {
    lace::verif::arm(true);
    let r = catch_unwind(AssertUnwindSafe(f));
    lace::verif::arm(false);
    match r {
        Ok(()) => Outcome::Ok,
        Err(payload) => {
            if let Some(e) = payload.downcast_ref::<VerifExit>() {
                Outcome::Exit(e.0)
            } else if payload.downcast_ref::<VerifFuel>().is_some() {
                Outcome::Fuel
            } else if let Some(s) = payload.downcast_ref::<String>() {
                Outcome::Panic(s.clone())
            } else if let Some(s) = payload.downcast_ref::<&str>() {
                Outcome::Panic(s.to_string())
            } else {
                Outcome::Panic("?".into())
            }
        }
    }
}

pub fn set_features(stack: bool) {
    lace::features::verif_force(Some(lace::features::verif_features(stack)));
}

pub struct VmRunner {
    env: RunEnvironment,
    shadow: Vec<u16>,
}

pub fn show_regs(env: &RunEnvironment) -> String {
    let mut s = format!("{:04x} {}", env.verif_pc(), env.verif_flag());
    for r in env.verif_regs() {
        s.push_str(&format!(" {:04x}", r));
    }
    s
}

/// `addr:val` for every word where `mem` differs from `shadow` (" -" if none).
pub fn mem_diff(mem: &[u16], shadow: &[u16]) -> (String, Vec<u16>) {
    let mut s = String::new();
    let mut addrs = Vec::new();
    if mem != shadow {
        for i in 0..65536usize {
            if mem[i] != shadow[i] {
                s.push_str(&format!(" {:04x}:{:04x}", i, mem[i]));
                addrs.push(i as u16);
            }
        }
    }
    if s.is_empty() {
        s.push_str(" -");
    }
    (s, addrs)
}

impl VmRunner {
    pub fn new() -> Self {
        let mut env = RunEnvironment::from_raw(&[0x3000, 0]).expect("from_raw");
        env.verif_set_mem(0x3001, 0);
        VmRunner { env, shadow: vec![0u16; 65536] }
    }

    /// Run one case on the real `RunState::execute`; returns the observation line.
    pub fn run(&mut self, cap: &mut Capture, c: &VmCase) -> String {
        set_features(c.stack);
        lace::set_minimal(c.minimal);
        let env = &mut self.env;
        for (a, v) in &c.mem {
            env.verif_set_mem(*a, *v);
            self.shadow[*a as usize] = *v;
        }
        for i in 0..8 {
            env.verif_set_reg(i, c.regs[i]);
        }
        env.verif_set_pc(c.pc);
        env.verif_set_flag(c.cc);
        env.verif_set_orig(c.orig);
        cap.set_stdin(&c.inp);
        cap.begin();
        let instr = c.instr;
        let outcome = guarded(|| env.verif_execute(instr));
        let (out, _err) = cap.end();
        let left = cap.drain_stdin();
        let line = match outcome {
            Outcome::Ok => {
                let (d, addrs) = mem_diff(&env.verif_mem()[..], &self.shadow);
                for a in addrs {
                    env.verif_set_mem(a, 0);
                }
                format!("ok {} |{} | {} {}", show_regs(env), d, hex(&out), left)
            }
            Outcome::Exit(code) => format!("exit {} | {} {}", code, hex(&out), left),
            Outcome::Fuel => "fuel".to_string(),
            Outcome::Panic(_) => "panic".to_string(),
        };
        // restore all-zero memory
        let (_, addrs) = mem_diff(&env.verif_mem()[..], &self.shadow);
        for a in addrs {
            env.verif_set_mem(a, 0);
        }
        for (a, _) in &c.mem {
            env.verif_set_mem(*a, 0);
            self.shadow[*a as usize] = 0;
        }
        line
    }
}

const BOUNDARY: [u16; 5] = [0, 1, 0x7FFF, 0x8000, 0xFFFF];

fn sext(v: u16, bits: u32) -> u16 {
    let shift = 16 - bits;
    (((v << shift) as i16) >> shift) as u16
}

/// A machine state for instruction word `w`, built from boundary values and seeded so that
/// every location the instruction can touch holds something recognisable.
pub fn gen_state(rng: &mut Rng, w: u16, variant: u32) -> VmCase {
    let pcs = [0x3001u16, 0x3000, 0x0001, 0x8000, 0xFE00, 0xFDFF, 0x7FFF, 0xFFFF, 0x0000];
    let pc = if variant == 0 { 0x3001 } else if rng.chance(1, 3) { rng.u16() } else { *rng.pick(&pcs) };
    let orig = if variant == 0 { 0x3000 } else { *rng.pick(&[0x3000u16, 0, 1, 0x8000, pc.wrapping_sub(1)]) };
    let mut regs = [0u16; 8];
    for i in 0..8 {
        regs[i] = match rng.below(10) {
            0..=4 => *rng.pick(&BOUNDARY),
            5 => pc,
            6 => pc.wrapping_sub(1),
            7 => pc.wrapping_add(1),
            _ => rng.u16(),
        };
    }
    if variant == 0 {
        // all registers distinct and recognisable
        for i in 0..8 {
            regs[i] = 0x1110u16.wrapping_mul(i as u16 + 1) ^ rng.u16() & 0x0F0F;
        }
    }
    // occasionally make registers coincide with interesting addresses
    if rng.chance(1, 4) {
        regs[7] = *rng.pick(&[0u16, 0xFFFF, 0xFDFF, 1, 0xFE00]);
    }
    let cc = *rng.pick(&[0u8, 1, 2, 4]);
    let opcode = w >> 12;
    let mut mem: Vec<(u16, u16)> = Vec::new();
    let mut put = |mem: &mut Vec<(u16, u16)>, a: u16, v: u16| {
        if let Some(e) = mem.iter_mut().find(|e| e.0 == a) {
            e.1 = v;
        } else {
            mem.push((a, v));
        }
    };
    let a9 = pc.wrapping_add(sext(w, 9));
    let base = regs[((w >> 6) & 7) as usize];
    let a6 = base.wrapping_add(sext(w, 6));
    let ptr = if rng.chance(1, 2) { rng.u16() } else { *rng.pick(&[a9, a6, pc, 0, 0xFFFF, regs[7]]) };
    put(&mut mem, a9, ptr);
    put(&mut mem, ptr, rng.u16());
    put(&mut mem, a6, rng.u16());
    put(&mut mem, regs[7], rng.u16());
    put(&mut mem, regs[7].wrapping_sub(1), rng.u16());
    put(&mut mem, regs[7].wrapping_add(1), rng.u16());
    for _ in 0..rng.below(4) {
        let a = rng.u16();
        put(&mut mem, a, rng.u16());
    }
    let mut inp = Vec::new();
    let mut minimal = true;
    if opcode == 0xF {
        let vec = w & 0xFF;
        // a string at R0 for PUTS / PUTSP, sometimes running across the top of memory
        if vec == 0x22 || vec == 0x24 || rng.chance(1, 8) {
            if rng.chance(1, 3) {
                regs[0] = 0xFFFFu16.wrapping_sub(rng.below(6) as u16);
            }
            let len = rng.below(9) as u16;
            for k in 0..len {
                let lo = if rng.chance(1, 10) { 0x1b } else { 0x20 + rng.below(0xE0) as u16 };
                let hi = match rng.below(4) {
                    0 => 0,
                    1 => 0x1b,
                    _ => 0x21 + rng.below(0xDE) as u16,
                };
                let hi = if vec == 0x22 && rng.chance(2, 3) { 0 } else { hi };
                put(&mut mem, regs[0].wrapping_add(k), (hi << 8) | lo);
            }
            let term = if rng.chance(1, 5) { (rng.u16() & 0xFF00) | 0 } else { 0 };
            put(&mut mem, regs[0].wrapping_add(len), term);
        }
        if vec == 0x20 || vec == 0x23 || rng.chance(1, 16) {
            for _ in 0..rng.below(4) {
                inp.push(match rng.below(5) {
                    0 => 0x1b,
                    1 => 0x80 + rng.below(0x80) as u8,
                    2 => rng.below(0x20) as u8,
                    _ => 0x20 + rng.below(0x5f) as u8,
                });
            }
        }
        minimal = rng.chance(3, 4);
        if vec == 0x27 {
            // REG: the normal-mode table has a character column; cover its classes
            minimal = rng.chance(1, 2);
            for r in regs.iter_mut() {
                if rng.chance(2, 3) {
                    *r = match rng.below(4) {
                        0 => rng.below(0x82) as u16,
                        1 => *rng.pick(&[0x7eu16, 0x7f, 0x80, 0x20, 0x21, 0x1b, 0x1f, 0x0d, 0x00, 0xff, 0x100, 0x8000, 0x7fff, 0xffff, 0xfffd]),
                        2 => 0x20 + rng.below(0x5f) as u16,
                        _ => rng.u16(),
                    };
                }
            }
        }
    }
    let stack = if variant == 0 { true } else { rng.chance(2, 3) };
    VmCase { stack, minimal, instr: w, pc, cc, regs, orig, mem, inp }
}

/// Minimised witnesses of the defects found in the original tree (DESIGN.md §5) and of every
/// disagreement found since; they run first.
pub fn corpus() -> Vec<VmCase> {
    let base = |instr: u16| VmCase {
        stack: true,
        minimal: true,
        instr,
        pc: 0x3001,
        cc: 0,
        regs: [0x1111, 0x2222, 0x3333, 0x4444, 0x5555, 0x6666, 0x7777, 0xFDFF],
        orig: 0x3000,
        mem: vec![],
        inp: vec![],
    };
    let mut v = Vec::new();
    // D8: JSRR R7
    let mut c = base(0x41C0);
    c.regs[7] = 0x4000;
    v.push(c);
    // D9: PUSH with R7 = 0, POP with R7 = 0xFFFF, CALL with R7 = 0, RETS with R7 = 0xFFFF
    for (w, sp) in [(0xD440u16, 0u16), (0xD040, 0xFFFF), (0xDC05, 0), (0xD800, 0xFFFF), (0xD5C0, 0), (0xD1C0, 0xFFFF)] {
        let mut c = base(w);
        c.regs[7] = sp;
        c.mem = vec![(0xFFFF, 0xBEEF), (0, 0x1234)];
        v.push(c);
    }
    // D10: PUTS / PUTSP across 0xFFFF
    for w in [0xF022u16, 0xF024] {
        let mut c = base(w);
        c.regs[0] = 0xFFFE;
        c.mem = vec![(0xFFFE, 0x0041), (0xFFFF, 0x0042), (0x0000, 0x0043), (0x0001, 0)];
        v.push(c);
    }
    // D11: PUTSP byte order, odd length
    let mut c = base(0xF024);
    c.regs[0] = 0x4000;
    c.mem = vec![(0x4000, 0x6261), (0x4001, 0x0063), (0x4002, 0)];
    v.push(c);
    // ESC handling in minimal / normal mode
    for minimal in [true, false] {
        let mut c = base(0xF021);
        c.regs[0] = 0x001b;
        c.minimal = minimal;
        v.push(c);
    }
    // REG in the normal output mode: every value of the character column (0 ..= 0x88), the
    // extremes of the signed / unsigned columns (swapped before the fix of the column order)
    for g in 0..18u16 {
        let mut c = base(0xF027);
        c.minimal = false;
        for k in 0..8u16 {
            c.regs[k as usize] = g * 8 + k;
        }
        v.push(c);
    }
    for regs in [[0x8000u16, 0x7FFF, 0xFFFF, 0xFFFD, 0x0100, 0x00FF, 0x270F, 0xD8F1], [1, 9, 10, 99, 100, 999, 1000, 9999]] {
        let mut c = base(0xF027);
        c.minimal = false;
        c.regs = regs;
        c.cc = 2;
        v.push(c);
    }
    // GETC / IN: ASCII, non-ASCII, end of input
    for w in [0xF020u16, 0xF023] {
        for inp in [vec![0x41u8, 0x42], vec![0xC3, 0xA9], vec![]] {
            let mut c = base(w);
            c.inp = inp;
            v.push(c);
        }
    }
    // unknown trap vector, opcode 0xD with the feature off, RTI
    v.push(base(0xF028));
    v.push(base(0xF0FF));
    let mut c = base(0xD440);
    c.stack = false;
    v.push(c);
    v.push(base(0x8000));
    v
}

pub fn sample_json(c: &VmCase) -> String {
    format!(
        "{{\"instr\":\"{:04x}\",\"pc\":\"{:04x}\",\"cc\":{},\"regs\":\"{}\",\"stack\":{},\"minimal\":{},\"mem_cells\":{},\"input_bytes\":{}}}",
        c.instr,
        c.pc,
        c.cc,
        c.regs.iter().map(|r| format!("{:04x}", r)).collect::<Vec<_>>().join(" "),
        c.stack,
        c.minimal,
        c.mem.len(),
        c.inp.len()
    )
}

pub fn run(o: &crate::Opts) {
    let mut cap = Capture::install();
    let mut sink = crate::Sink::new(o);
    let mut runner = VmRunner::new();
    if let Some(path) = &o.replay {
        for line in std::fs::read_to_string(path).unwrap().lines() {
            match VmCase::parse(line) {
                Some(c) => {
                    let obs = runner.run(&mut cap, &c);
                    sink.put(line, &obs);
                }
                None => sink.put(line, "bad-request"),
            }
        }
        sink.finish(o, "{}");
        return;
    }
    let mut rng = Rng::new(o.seed ^ 0xC02);
    let mut samples: Vec<String> = Vec::new();
    let mut by_opcode = [0u64; 16];
    let mut corpus_n = 0;
    if o.shard == 0 {
        for c in corpus() {
            let line = runner.run(&mut cap, &c);
            sink.put(&c.request(), &line);
            corpus_n += 1;
        }
    }
    // every instruction word, `variants` machine states each; words are dealt to shards
    let variants: u32 = if o.thorough { 32 } else { 3 };
    for w in 0..=0xFFFFu32 {
        if (w as usize) % o.nshards != o.shard {
            continue;
        }
        let mut wrng = Rng::new(o.seed.wrapping_mul(65537).wrapping_add(w as u64));
        for variant in 0..variants {
            let c = gen_state(&mut wrng, w as u16, variant);
            let line = runner.run(&mut cap, &c);
            by_opcode[(w >> 12) as usize] += 1;
            if samples.len() < 4 && rng.chance(1, 3000) {
                samples.push(sample_json(&c));
            }
            sink.put(&c.request(), &line);
        }
    }
    let stats = format!(
        "{{\"cases\":{},\"corpus\":{},\"variants_per_word\":{},\"by_opcode\":{:?},\"samples\":[{}]}}",
        sink.n, corpus_n, variants, by_opcode, samples.join(",")
    );
    sink.finish(o, &stats);
}
