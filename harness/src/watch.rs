//! Per-case watchdog. A case on which the implementation makes no progress (for instance a
//! debugger that spins without executing an instruction or reading a command) would otherwise
//! hang the whole check: the case announces itself with `enter`, and if it is still running
//! after `VERIF_CASE_TIMEOUT` seconds (default 120 — ordinary cases take milliseconds) the
//! request is written to `<out>/<id>.<shard>.hang` and the worker exits with status 3.
use std::sync::Mutex;
extern "C" {
    fn _exit(code: i32) -> !;
}
use std::time::{Duration, Instant};

static CUR: Mutex<Option<(Instant, String)>> = Mutex::new(None);

pub fn start(out: &str, prop: &str, shard: u32) {
    let path = format!("{}/{}.{}.hang", out, prop, shard);
    let _ = std::fs::remove_file(&path);
    let limit = std::env::var("VERIF_CASE_TIMEOUT").ok().and_then(|s| s.parse::<u64>().ok()).unwrap_or(120);
    std::thread::spawn(move || loop {
        std::thread::sleep(Duration::from_millis(250));
        let hit = match CUR.lock() {
            Ok(g) => match &*g {
                Some((t, req)) if t.elapsed() > Duration::from_secs(limit) => Some(req.clone()),
                _ => None,
            },
            Err(_) => None,
        };
        if let Some(req) = hit {
            let _ = std::fs::write(&path, format!("{}\n", req));
            unsafe { _exit(3) };
        }
    });
}

pub fn enter(req: &str) {
    if let Ok(mut g) = CUR.lock() {
        *g = Some((Instant::now(), req.to_string()));
    }
}

pub fn leave() {
    if let Ok(mut g) = CUR.lock() {
        *g = None;
    }
}

/// `enter` now, `leave` when dropped.
pub struct Guard;
impl Guard {
    pub fn new(req: &str) -> Guard {
        enter(req);
        Guard
    }
}
impl Drop for Guard {
    fn drop(&mut self) {
        leave();
    }
}
