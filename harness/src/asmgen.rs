//! Generators for assembler sources (shared by C01, C04, C05, C17, C18, C19).
//!
//! A program is first an abstract [`Prog`] (statements with operands and label definitions), then
//! a list of token spellings ([`Piece`]), then text under a random layout.  Token-level mutations
//! work on the piece list, byte- and character-level mutations on the rendered text.
use crate::prng::Rng;

#[derive(Clone, Debug)]
pub enum Operand {
    Reg(u8),
    /// a 16-bit literal word, given as a value in -32768..=65535
    Imm(i32),
    Label(String),
    Str(String),
    /// a literal spelling that is taken verbatim (malformed / quirky literals)
    Verb(String),
}

#[derive(Clone, Debug)]
pub enum Item {
    /// labels defined on the statement, mnemonic or directive, operands
    Stmt { labels: Vec<String>, op: String, args: Vec<Operand> },
    Orig(i32),
    Break,
    End,
}

#[derive(Clone, Debug, Default)]
pub struct Prog {
    pub items: Vec<Item>,
}

/// One token spelling; `eol` = a line break is preferred after it.
#[derive(Clone, Debug)]
pub struct Piece {
    pub text: String,
    pub eol: bool,
}

pub const LABEL_POOL: &[&str] = &[
    "loop", "LOOP", "Loop", "l1", "a", "b", "done", "x_1", "xyz", "r8", "R12", "r1x", "0abc", "00",
    "9", "_", "__t", "halt1", "addx", "brnzpx", "b101", "puts_", "in2", "data", "msg", "sub_1", "x",
    "X", "0x", "xg", "o17", "end", "fill", "orig", "stringz", "retsx", "pushy", "call2", "k",
];

pub const BR: &[&str] = &["br", "brn", "brz", "brp", "brnz", "brzp", "brnp", "brnzp"];
pub const TRAPS: &[&str] = &["getc", "out", "puts", "in", "putsp", "halt", "putn", "reg"];
pub const STACK: &[&str] = &["push", "pop", "call", "rets"];
pub const MNEMONICS: &[&str] = &[
    "add", "and", "br", "brn", "brz", "brp", "brnz", "brzp", "brnp", "brnzp", "jmp", "jsr", "jsrr", "ld",
    "ldi", "ldr", "lea", "not", "ret", "rti", "st", "sti", "str", "trap", "getc", "out", "puts", "in",
    "putsp", "halt", "putn", "reg", "push", "pop", "call", "rets",
];
pub const DIRS: &[&str] = &[".orig", ".end", ".stringz", ".blkw", ".fill", ".break"];
pub const WIDE: &[&str] = &["é", "ß", "→", "€", "😀", "𝄞", "\u{a0}", "\u{2028}", "\u{feff}", "２", "٣", "²", "½", "१", "Ⅷ", "ǅ", "ﬁ"];

/// signed range of an n-bit field
fn pk(rng: &mut Rng, xs: &[&'static str]) -> &'static str {
    *rng.pick(xs)
}

fn srange(bits: u32) -> (i32, i32) {
    (-(1 << (bits - 1)), (1 << (bits - 1)) - 1)
}

/// A value for a field: mostly in range, sometimes at / just beyond the boundary or extreme.
pub fn field_value(rng: &mut Rng, lo: i32, hi: i32, wild: bool) -> i32 {
    if wild && rng.chance(1, 4) {
        return *rng.pick(&[lo - 1, hi + 1, lo, hi, -1, 0, 0x7FFF, -0x8000, 0xFFFF, 0x8000, hi + 2, lo - 2, 2 * hi + 1]);
    }
    match rng.below(6) {
        0 => lo,
        1 => hi,
        2 => 0,
        3 => -1i32.max(lo),
        _ => rng.range(lo as i64, hi as i64) as i32,
    }
}

pub struct GenOpts {
    pub stmts: usize,
    /// allow out-of-range operands, undefined / duplicate labels, repeated .orig …
    pub wild: bool,
    pub stack: bool,
}

/// A random program over the whole instruction / trap / directive set.
pub fn gen_prog(rng: &mut Rng, o: &GenOpts) -> Prog {
    // choose label names and where they are defined
    let nlabels = 1 + rng.below((o.stmts as u64 / 2).max(1).min(12)) as usize;
    let mut names: Vec<String> = Vec::new();
    while names.len() < nlabels {
        let n = if rng.chance(3, 4) {
            rng.pick(LABEL_POOL).to_string()
        } else {
            format!("{}{}", rng.pick(&["L", "lbl_", "t", "X_", "zz"]), rng.below(1000))
        };
        if !names.contains(&n) {
            names.push(n);
        }
    }
    let mut def_at: Vec<usize> = names.iter().map(|_| rng.below(o.stmts as u64) as usize).collect();
    if o.wild && rng.chance(1, 6) {
        // a label that is never defined
        def_at[0] = usize::MAX;
    }
    let mut p = Prog::default();
    if rng.chance(2, 3) {
        let v = if o.wild { field_value(rng, 0, 0xFFFF, true) } else { *rng.pick(&[0x3000, 0, 1, 0x7FFF, 0x8000, 0xFDFF, 0xFFFF, 0x200]) };
        p.items.push(Item::Orig(v));
    }
    for i in 0..o.stmts {
        let mut labels: Vec<String> =
            names.iter().zip(&def_at).filter(|(_, d)| **d == i).map(|(n, _)| n.clone()).collect();
        if o.wild && rng.chance(1, 40) && !names.is_empty() {
            labels.push(rng.pick(&names).clone()); // possibly duplicate definition
        }
        if rng.chance(1, 12) {
            p.items.push(Item::Break);
        }
        if o.wild && rng.chance(1, 60) {
            p.items.push(Item::Orig(0x4000));
        }
        let lab = |rng: &mut Rng| -> Operand {
            if rng.chance(1, 5) {
                let (lo, hi) = srange(9);
                Operand::Imm(field_value(rng, lo.max(-20), hi.min(20), o.wild))
            } else if o.wild && rng.chance(1, 30) {
                Operand::Label("undefined_".into())
            } else {
                Operand::Label(rng.pick(&names).clone())
            }
        };
        let reg = |rng: &mut Rng| Operand::Reg(rng.below(8) as u8);
        let kinds = if o.stack { 26 } else { 22 };
        let (op, args): (String, Vec<Operand>) = match rng.below(kinds) {
            0 | 1 => {
                let op = if rng.chance(1, 2) { "add" } else { "and" };
                let last = if rng.chance(1, 2) {
                    reg(rng)
                } else {
                    let (lo, hi) = srange(5);
                    Operand::Imm(field_value(rng, lo, hi, o.wild))
                };
                (op.into(), vec![reg(rng), reg(rng), last])
            }
            2 | 3 => (rng.pick(BR).to_string(), vec![lab(rng)]),
            4 => ("jmp".into(), vec![reg(rng)]),
            5 => ("jsr".into(), vec![lab(rng)]),
            6 => ("jsrr".into(), vec![reg(rng)]),
            7 => ("ld".into(), vec![reg(rng), lab(rng)]),
            8 => ("ldi".into(), vec![reg(rng), lab(rng)]),
            9 | 10 => {
                let (lo, hi) = srange(6);
                let op = if rng.chance(1, 2) { "ldr" } else { "str" };
                (op.into(), vec![reg(rng), reg(rng), Operand::Imm(field_value(rng, lo, hi, o.wild))])
            }
            11 => ("lea".into(), vec![reg(rng), lab(rng)]),
            12 => ("not".into(), vec![reg(rng), reg(rng)]),
            13 => (rng.pick(&["ret", "rti"]).to_string(), vec![]),
            14 => ("st".into(), vec![reg(rng), lab(rng)]),
            15 => ("sti".into(), vec![reg(rng), lab(rng)]),
            16 => ("trap".into(), vec![Operand::Imm(field_value(rng, 0, 255, o.wild))]),
            17 => (rng.pick(TRAPS).to_string(), vec![]),
            18 => (".fill".into(), vec![Operand::Imm(field_value(rng, -0x8000, 0xFFFF, false))]),
            19 => {
                let n = if o.wild && rng.chance(1, 3) {
                    *rng.pick(&[254, 255, 256, 257, 510, 511, 512, 513, 1022, 1023, 1024, 1025])
                } else {
                    rng.below(5) as i32
                };
                (".blkw".into(), vec![Operand::Imm(n)])
            }
            20 | 21 => (".stringz".into(), vec![Operand::Str(gen_string(rng))]),
            22 => ("push".into(), vec![reg(rng)]),
            23 => ("pop".into(), vec![reg(rng)]),
            24 => ("call".into(), vec![Operand::Label(rng.pick(&names).clone())]),
            _ => ("rets".into(), vec![]),
        };
        p.items.push(Item::Stmt { labels, op, args });
    }
    if rng.chance(1, 10) {
        p.items.push(Item::Break);
    }
    if rng.chance(1, 3) {
        p.items.push(Item::End);
    }
    p
}

/// The *content* of a string literal as written in the source (escapes included, no quotes).
pub fn gen_string(rng: &mut Rng) -> String {
    let mut s = String::new();
    for _ in 0..rng.below(8) {
        match rng.below(14) {
            0 => s.push_str("\\n"),
            1 => s.push_str("\\t"),
            2 => s.push_str("\\\""),
            3 => s.push_str("\\\\"),
            4 => s.push_str("\\r"),
            5 => s.push_str("\\q"),
            6 => s.push_str(pk(rng, WIDE)),
            7 => s.push(' '),
            8 => s.push(';'),
            9 => s.push(','),
            _ => s.push((b'a' + rng.below(26) as u8) as char),
        }
    }
    s
}

pub fn rand_case(rng: &mut Rng, s: &str) -> String {
    match rng.below(4) {
        0 => s.to_string(),
        1 => s.to_uppercase(),
        _ => s.chars().map(|c| if rng.chance(1, 2) { c.to_ascii_uppercase() } else { c.to_ascii_lowercase() }).collect(),
    }
}

/// A spelling of the 16-bit word `v` (given in -32768..=65535; values outside are spelled
/// literally in decimal / hex and are lex errors).
pub fn spell_lit(rng: &mut Rng, v: i32) -> String {
    let zeros = |rng: &mut Rng| "0".repeat(if rng.chance(1, 4) { 1 + rng.below(3) as usize } else { 0 });
    let hexs = |rng: &mut Rng, n: u32| if rng.chance(1, 2) { format!("{:x}", n) } else { format!("{:X}", n) };
    if !(-0x8000..=0xFFFF).contains(&v) {
        return if rng.chance(1, 2) { format!("#{}", v) } else if v < 0 { format!("x-{:x}", -(v as i64)) } else { format!("x{:x}", v) };
    }
    let word = (v & 0xFFFF) as u16;
    let signed = word as i16 as i32;
    let hp = |rng: &mut Rng| rng.pick(&["x", "X", "0x", "0X"]).to_string();
    match rng.below(8) {
        0 => format!("#{}{}", zeros(rng), word),
        1 if signed >= 0 => format!("#+{}{}", zeros(rng), signed),
        1 | 2 => {
            if signed < 0 {
                format!("#-{}{}", zeros(rng), -signed)
            } else {
                format!("#{}{}", zeros(rng), signed)
            }
        }
        3 if signed < 0 => format!("{}-{}{}", hp(rng), zeros(rng), hexs(rng, (-signed) as u32)),
        3 if signed >= 0 && rng.chance(1, 2) => format!("{}+{}", hp(rng), hexs(rng, signed as u32)),
        _ => format!("{}{}{}", hp(rng), zeros(rng), hexs(rng, word as u32)),
    }
}

pub fn spell_operand(rng: &mut Rng, a: &Operand) -> String {
    match a {
        Operand::Reg(r) => format!("{}{}", if rng.chance(1, 2) { "r" } else { "R" }, r),
        Operand::Imm(v) => spell_lit(rng, *v),
        Operand::Label(l) => l.clone(),
        Operand::Str(s) => format!("\"{}\"", s),
        Operand::Verb(s) => s.clone(),
    }
}

pub fn pieces(rng: &mut Rng, p: &Prog) -> Vec<Piece> {
    let mut out = Vec::new();
    let mut push = |text: String, eol: bool| out.push(Piece { text, eol });
    for it in &p.items {
        match it {
            Item::Orig(v) => {
                push(rand_case(rng, ".orig"), false);
                push(spell_lit(rng, *v), true);
            }
            Item::Break => push(rand_case(rng, ".break"), true),
            Item::End => push(rand_case(rng, ".end"), true),
            Item::Stmt { labels, op, args } => {
                for l in labels {
                    push(l.clone(), rng.chance(1, 5));
                }
                push(rand_case(rng, op), args.is_empty());
                for (i, a) in args.iter().enumerate() {
                    push(spell_operand(rng, a), i + 1 == args.len());
                }
            }
        }
    }
    out
}

const SEPS: &[&str] = &[" ", " ", " ", "\t", ",", ", ", ":", " , ", "  ", "\r", "\x0c", ": "];

fn gen_comment(rng: &mut Rng) -> String {
    let mut s = String::from(";");
    for _ in 0..rng.below(10) {
        match rng.below(10) {
            0 => s.push_str(pk(rng, WIDE)),
            1 => s.push('"'),
            2 => s.push(';'),
            3 => s.push(' '),
            4 => s.push_str(pk(rng, MNEMONICS)),
            _ => s.push((b'a' + rng.below(26) as u8) as char),
        }
    }
    s
}

/// Lay the pieces out as text: separators from the whole white-space set, comments (always
/// preceded by white space), blank lines.
pub fn layout(rng: &mut Rng, ps: &[Piece]) -> String {
    let mut s = String::new();
    if rng.chance(1, 4) {
        s.push_str(pk(rng, &["\n", "  ", "\n\n", "; header\n", "\t", "\r\n"]));
    }
    for (i, p) in ps.iter().enumerate() {
        s.push_str(&p.text);
        let last = i + 1 == ps.len();
        if p.eol && rng.chance(9, 10) {
            if rng.chance(1, 6) {
                s.push_str(pk(rng, &[" ", "\t", "  "]));
                s.push_str(&gen_comment(rng));
            }
            s.push_str(pk(rng, &["\n", "\n", "\n", "\r\n", "\n\n", "\n  \n", "\n\t"]));
        } else if !last || rng.chance(1, 2) {
            let m = if rng.chance(1, 8) { 3 } else { 1 };
            let k = 1 + rng.below(m);
            for _ in 0..k {
                s.push_str(pk(rng, SEPS));
            }
            if rng.chance(1, 40) {
                s.push_str(&gen_comment(rng));
                s.push('\n');
            }
        }
    }
    s
}

/// Plain layout: one space between tokens, newline after each statement.
pub fn layout_plain(ps: &[Piece]) -> String {
    let mut s = String::new();
    for p in ps {
        s.push_str(&p.text);
        s.push(if p.eol { '\n' } else { ' ' });
    }
    s
}

/// A replacement token of any kind (including data directives, `.break`, `.orig`, strings and
/// lexically odd spellings).
pub fn any_token(rng: &mut Rng) -> String {
    const ODD: &[&str] = &[
        ".fill x3", ".break", ".orig", ".orig x3000", "\"str\"", ".stringz", ".stringz \"ab\"", ".blkw", ".blkw 2",
        ".blkw #2", ".end", ".fill", ".fill #-1", "r8", "r07", "r", "R", "#", "x", "0x", "0", "00", "#99999", "x10000",
        "x-8001", "x-8000", "#-32768", "#-32769", "#65535", "#65536", "xFFFF", "x7FFF", "x8000", "#+", "#-", "x+", "x-",
        "#1.5", "@", "é", "😀", "\"unterminated", "\"a\\", "\\", "'a'", "-1", "+1", "12", "1", ".", ".fil", ".FILL", "..",
        ".breakx", "$", "%10", "(", "x1g", "0xz", "#x10", "#0x10", "xé", "0x😀", "x1é", "#é", "#1é", "r1é", "\"é", "\0",
        "r1\0", "x\0", ".blkw xFFFF", ".blkw x7FFF", ".blkw #-1", ".stringz \"\"", ".fill \"s\"", ".blkw r1", ".stringz x1",
        ".stringz lbl", "trap", "trap x25", "trap xFF", "trap x100", "trap #-1", "br #-2", "br #-300", "halt", "rets",
        "２", "٣x", "²", "½a", "१२", "r２", "x２", "#２", "Ⅷ", "a２b",
        "65536", "4294967295", "4294967296", "18446744073709551616", "99999999999999999999999", "#4294967296",
        "x100000000", "0x10000000000000000", "340282366920938463463374607431768211456", "0000000000000000000000001",
    ];
    match rng.below(7) {
        0 => {
            let m = pk(rng, MNEMONICS);
            rand_case(rng, m)
        }
        1 => format!("r{}", rng.below(8)),
        2 => {
            let v = field_value(rng, -0x8000, 0xFFFF, true);
            spell_lit(rng, v)
        }
        3 => rng.pick(LABEL_POOL).to_string(),
        4 => {
            let d = pk(rng, DIRS);
            rand_case(rng, d)
        }
        _ => rng.pick(ODD).to_string(),
    }
}

/// Token-level mutation of a piece list.
pub fn mutate_tokens(rng: &mut Rng, ps: &mut Vec<Piece>) -> &'static str {
    if ps.is_empty() {
        ps.push(Piece { text: any_token(rng), eol: true });
        return "tok-insert";
    }
    let i = rng.below(ps.len() as u64) as usize;
    match rng.below(6) {
        0 => {
            ps.remove(i);
            "tok-delete"
        }
        1 => {
            let p = ps[i].clone();
            ps.insert(i, p);
            "tok-duplicate"
        }
        2 => {
            let j = rng.below(ps.len() as u64) as usize;
            let (a, b) = (ps[i].text.clone(), ps[j].text.clone());
            ps[i].text = b;
            ps[j].text = a;
            "tok-swap"
        }
        3 => {
            let t = any_token(rng);
            ps.insert(i, Piece { text: t, eol: false });
            "tok-insert"
        }
        _ => {
            ps[i].text = any_token(rng);
            "tok-replace"
        }
    }
}

fn char_boundaries(s: &str) -> Vec<usize> {
    let mut v: Vec<usize> = s.char_indices().map(|(i, _)| i).collect();
    v.push(s.len());
    v
}

/// Insert a 2-, 3- or 4-byte character at a token boundary, inside a token, or right after one
/// of the lexer's prefix characters.
pub fn mutate_wide(rng: &mut Rng, s: &str) -> String {
    let w = *rng.pick(WIDE);
    let b = char_boundaries(s);
    let mut cands: Vec<usize> = Vec::new();
    if rng.chance(1, 2) {
        // after x, 0x, #, rN, ", ., ;
        let bytes = s.as_bytes();
        for &i in &b {
            if i == 0 {
                continue;
            }
            let c = bytes[i - 1];
            if matches!(c, b'x' | b'X' | b'#' | b'"' | b'.' | b';' | b'\\' | b'0'..=b'7') {
                cands.push(i);
            }
        }
    }
    let at = if cands.is_empty() { *rng.pick(&b) } else { *rng.pick(&cands) };
    format!("{}{}{}", &s[..at], w, &s[at..])
}

/// Byte-level mutation (the result is made valid UTF-8 again with U+FFFD replacement).
pub fn mutate_bytes(rng: &mut Rng, s: &str) -> String {
    let mut b = s.as_bytes().to_vec();
    const INTERESTING: &[u8] = b";\"\\#.x0rR:,\n\r\t\x0c \0-+@'(1789aAfFgG_\x7f\xc3\xa9\xf0\x9f\x80";
    for _ in 0..1 + rng.below(3) {
        let i = rng.below(b.len() as u64 + 1) as usize;
        match rng.below(4) {
            0 if i < b.len() => {
                b.remove(i);
            }
            1 if i < b.len() => b[i] = *rng.pick(INTERESTING),
            2 if i < b.len() => b[i] ^= 1 << rng.below(8),
            _ => b.insert(i.min(b.len()), *rng.pick(INTERESTING)),
        }
    }
    String::from_utf8_lossy(&b).into_owned()
}

/// Put a comment directly against the end of a token (no white space in between).
pub fn mutate_abut_comment(rng: &mut Rng, ps: &mut Vec<Piece>) {
    if ps.is_empty() {
        return;
    }
    let i = rng.below(ps.len() as u64) as usize;
    let c = gen_comment(rng);
    ps[i].text = format!("{}{}", ps[i].text, c);
    ps[i].eol = true;
}

/// Text made of random fragments glued by random separators (lexer stress).
pub fn gen_soup(rng: &mut Rng) -> String {
    let mut s = String::new();
    for _ in 0..1 + rng.below(12) {
        s.push_str(&any_token(rng));
        match rng.below(10) {
            0 => {}
            1 => s.push_str(&gen_comment(rng)),
            2 => s.push('\n'),
            _ => s.push_str(pk(rng, SEPS)),
        }
    }
    s
}

// ------------------------------------------------------------------------------------------
// Layout renderer that also reports, per statement, the exact text it wrote and its byte span
// (C17's `renderStatement` oracle; also used by the source-level debugger sessions of C15).

/// What the renderer knows about one `Item::Stmt` of the abstract program.
#[derive(Clone, Debug)]
pub struct StmtInfo {
    /// index into `Prog::items`
    pub item: usize,
    /// byte span in the rendered text: first byte of the mnemonic/directive token … one past the
    /// last byte of the last operand token
    pub start: usize,
    pub end: usize,
    /// the text written in that span: mnemonic or directive through the last operand, inner
    /// separators (and comments between operands) included; no label, no trailing comment
    pub text: String,
    /// number of memory words the statement produces
    pub words: usize,
    /// index of its first word in the image
    pub first_word: usize,
}

#[derive(Clone, Debug, Default)]
pub struct Rendered {
    pub text: String,
    pub stmts: Vec<StmtInfo>,
    /// origin according to the abstract program (default 0x3000)
    pub orig: u16,
    /// label name → index of the word it marks
    pub labels: Vec<(String, usize)>,
    /// word indices before which a `.break` stands
    pub breaks: Vec<usize>,
    /// total number of words
    pub nwords: usize,
}

impl Rendered {
    /// `renderStatement` per image word: the text of the statement that produced word `i`.
    pub fn word_texts(&self) -> Vec<String> {
        let mut v = Vec::new();
        for s in &self.stmts {
            for _ in 0..s.words {
                v.push(s.text.clone());
            }
        }
        v
    }
}

/// `unescape` as documented in DESIGN.md I2 (five escapes, unknown ones kept verbatim).
pub fn unescape_len(s: &str) -> usize {
    let cs: Vec<char> = s.chars().collect();
    let mut i = 0;
    let mut n = 0;
    while i < cs.len() {
        if cs[i] == '\\' {
            if i + 1 < cs.len() {
                n += if matches!(cs[i + 1], 'n' | 't' | 'r' | '\\' | '"') { 1 } else { 2 };
                i += 2;
            } else {
                n += 1;
                i += 1;
            }
        } else {
            n += 1;
            i += 1;
        }
    }
    n
}

/// Number of words a statement of the abstract program produces (`None`: not determined by the
/// abstract program, e.g. a malformed operand).
pub fn stmt_words(op: &str, args: &[Operand]) -> Option<usize> {
    match op {
        ".blkw" => match args.first() {
            Some(Operand::Imm(n)) if *n >= 0 => Some((*n & 0xFFFF) as usize),
            _ => None,
        },
        ".stringz" => match args.first() {
            Some(Operand::Str(s)) => Some(unescape_len(s) + 1),
            _ => None,
        },
        _ => Some(1),
    }
}

/// How much freedom the layout takes.
#[derive(Clone, Copy, PartialEq)]
pub enum Style {
    /// one statement per line, single spaces
    Plain,
    /// the whole white-space set, commas, colons after labels, comments (also between operands),
    /// several statements on a line, multi-byte characters in comments
    Wild,
}

/// `comment` = a comment may stand between the two tokens (not between a data directive and its
/// operand: the preprocessor reads the operand with `advance_real`, which skips white space only).
fn inner_sep_c(rng: &mut Rng, st: Style, comment: bool) -> String {
    let s = inner_sep(rng, st);
    if comment || !s.contains(';') {
        s
    } else {
        " ".into()
    }
}

fn inner_sep(rng: &mut Rng, st: Style) -> String {
    if st == Style::Plain {
        return " ".into();
    }
    let mut s = String::new();
    let m = if rng.chance(1, 6) { 3 } else { 1 };
    let k = 1 + rng.below(m);
    for _ in 0..k {
        s.push_str(pk(rng, SEPS));
    }
    if rng.chance(1, 25) {
        // a comment between two operands (I12: preceded by white space), then the rest on a new line
        s.push_str(&gen_comment(rng));
        s.push('\n');
        if rng.chance(1, 2) {
            s.push_str(pk(rng, &[" ", "\t", "  ", ","]));
        }
    } else if rng.chance(1, 25) {
        s.push_str(pk(rng, &["\n", "\r\n", "\n\t"]));
    }
    s
}

fn stmt_sep(rng: &mut Rng, st: Style) -> String {
    if st == Style::Plain {
        return "\n".into();
    }
    let mut s = String::new();
    if rng.chance(1, 10) {
        // next statement on the same line
        s.push_str(pk(rng, &[" ", "  ", "\t", ", ", " : "]));
        return s;
    }
    if rng.chance(1, 4) {
        s.push_str(pk(rng, &[" ", "\t", "  "]));
        s.push_str(&gen_comment(rng));
    }
    s.push_str(pk(rng, &["\n", "\n", "\n", "\r\n", "\n\n", "\n  \n", "\n\t", "\n    "]));
    s
}

/// Render `p`, recording statement spans.  `lead` = text allowed before the first token.
pub fn render_spans(rng: &mut Rng, p: &Prog, st: Style, lead: bool) -> Rendered {
    let mut r = Rendered { orig: 0x3000, ..Default::default() };
    let mut s = String::new();
    if lead && st == Style::Wild && rng.chance(1, 2) {
        s.push_str(pk(rng, &["\n", "  ", "\n\n", "; header é\n", "\t", "\r\n", ";\n"]));
    }
    let mut word = 0usize;
    let mut orig_seen = false;
    for (idx, it) in p.items.iter().enumerate() {
        match it {
            Item::Orig(v) => {
                s.push_str(&if st == Style::Plain { ".orig".to_string() } else { rand_case(rng, ".orig") });
                s.push_str(&inner_sep(rng, st));
                s.push_str(&spell_lit(rng, *v));
                if !orig_seen {
                    r.orig = (*v & 0xFFFF) as u16;
                    orig_seen = true;
                }
                s.push_str(&stmt_sep(rng, st));
            }
            Item::Break => {
                s.push_str(&if st == Style::Plain { ".break".to_string() } else { rand_case(rng, ".break") });
                if !r.breaks.contains(&word) {
                    r.breaks.push(word);
                }
                s.push_str(&stmt_sep(rng, st));
            }
            Item::End => {
                s.push_str(&if st == Style::Plain { ".end".to_string() } else { rand_case(rng, ".end") });
                s.push_str(&stmt_sep(rng, st));
                if st == Style::Wild && rng.chance(1, 2) {
                    // nothing after `.end` is read
                    let junk = pk(rng, &["add r0 r0", "\"open", "é€ x", ".fill", "lbl lbl lbl\n"]);
                    s.push_str(junk);
                }
                break;
            }
            Item::Stmt { labels, op, args } => {
                for l in labels {
                    s.push_str(l);
                    r.labels.push((l.clone(), word));
                    if st == Style::Wild && rng.chance(1, 3) {
                        s.push(':');
                        if rng.chance(1, 2) {
                            s.push_str(pk(rng, &[" ", "\n", "\t", " \n  "]));
                        }
                    } else if st == Style::Wild && rng.chance(1, 6) {
                        s.push_str(pk(rng, &["\n", "\n\t", " ; c\n", "\r\n"]));
                    } else {
                        s.push_str(&inner_sep(rng, st));
                    }
                }
                let start = s.len();
                s.push_str(&if st == Style::Plain { op.clone() } else { rand_case(rng, op) });
                for a in args {
                    s.push_str(&inner_sep_c(rng, st, !op.starts_with('.')));
                    s.push_str(&spell_operand(rng, a));
                }
                let end = s.len();
                let words = stmt_words(op, args).unwrap_or(1);
                r.stmts.push(StmtInfo { item: idx, start, end, text: s[start..end].to_string(), words, first_word: word });
                word += words;
                // a label operand ends at the first character that cannot be part of an identifier:
                // a directive may follow it without any separator (`br skip.fill x1`)
                let glued = st == Style::Wild
                    && matches!(args.last(), Some(Operand::Label(_)))
                    && match p.items.get(idx + 1) {
                        Some(Item::Stmt { labels, op, .. }) => labels.is_empty() && op.starts_with('.'),
                        Some(Item::Break) | Some(Item::Orig(_)) | Some(Item::End) => true,
                        None => false,
                    }
                    && rng.chance(1, 3);
                if !glued {
                    s.push_str(&stmt_sep(rng, st));
                }
            }
        }
    }
    r.nwords = word;
    r.breaks.sort();
    r.text = s;
    r
}
