//! C20: the interactive line editor of the debugger (`Terminal::handle_key`, `read_line`,
//! `get_next_command`), driven through the `verif` hooks without a tty and without history file.
//!
//! Request:  `K20 <history> <keys> <classes>`
//!   history  `-` or comma-separated hex (UTF-8) lines, oldest first
//!   keys     `-` or comma-separated tokens: `c<hex code point>` (Key::Char), `BS DEL L R CL CR UP DN ENT`
//!   classes  `-` or comma-separated `<hex code point>:<w><a>` — Rust's own `char::is_whitespace` /
//!            `char::is_alphanumeric` of every character occurring in the case
//! Answer:   `<view>*  | <commands> | <final view>/<byte cursor> | <history>`   or   `<view>* | <commands> | panic`
//!   view     `<hex buffer>/<visible cursor>/<history index>/<hex current line>` after each key,
//!            followed by `!` when the key submitted the line (handle_key returned true)
//!   commands what successive `Read::read` calls returned (hex, comma-separated, `-` if none, `.` = empty command)
use crate::cap::{hex, unhex, Capture};
use crate::prng::Rng;
use crate::vm::{guarded, Outcome};
use crate::{Opts, Sink};
use lace::verif::{char_class, editor_script_keys, editor_take_views, EditorView, Key, Terminal, VerifKeysExhausted};
use std::collections::BTreeMap;
use std::panic::{catch_unwind, resume_unwind, AssertUnwindSafe};

#[derive(Clone, Debug)]
pub struct Case {
    pub hist: Vec<String>,
    pub keys: Vec<Key>,
}

fn key_token(k: &Key) -> String {
    match k {
        Key::Char(c) => format!("c{:x}", *c as u32),
        Key::Backspace => "BS".into(),
        Key::Delete => "DEL".into(),
        Key::Left => "L".into(),
        Key::Right => "R".into(),
        Key::CtrlLeft => "CL".into(),
        Key::CtrlRight => "CR".into(),
        Key::Up => "UP".into(),
        Key::Down => "DN".into(),
        Key::Enter => "ENT".into(),
    }
}

fn parse_key(t: &str) -> Option<Key> {
    Some(match t {
        "BS" => Key::Backspace,
        "DEL" => Key::Delete,
        "L" => Key::Left,
        "R" => Key::Right,
        "CL" => Key::CtrlLeft,
        "CR" => Key::CtrlRight,
        "UP" => Key::Up,
        "DN" => Key::Down,
        "ENT" => Key::Enter,
        _ => {
            let cp = u32::from_str_radix(t.strip_prefix('c')?, 16).ok()?;
            Key::Char(char::from_u32(cp)?)
        }
    })
}

fn join_or_dash(v: Vec<String>) -> String {
    if v.is_empty() { "-".into() } else { v.join(",") }
}

/// hex of a text inside a comma-separated list (`.` for the empty text)
fn hex_item(s: &str) -> String {
    if s.is_empty() { ".".into() } else { hex(s.as_bytes()) }
}

impl Case {
    pub fn request(&self) -> String {
        let mut chars: BTreeMap<u32, (bool, bool)> = BTreeMap::new();
        for h in &self.hist {
            for c in h.chars() {
                chars.insert(c as u32, char_class(c));
            }
        }
        for k in &self.keys {
            if let Key::Char(c) = k {
                chars.insert(*c as u32, char_class(*c));
            }
        }
        format!(
            "K20 {} {} {}",
            join_or_dash(self.hist.iter().map(|h| hex_item(h)).collect()),
            join_or_dash(self.keys.iter().map(key_token).collect()),
            join_or_dash(chars.iter().map(|(c, (w, a))| format!("{:x}:{}{}", c, *w as u8, *a as u8)).collect()),
        )
    }

    pub fn parse(line: &str) -> Option<Case> {
        let f: Vec<&str> = line.split_whitespace().collect();
        if f.len() != 4 || f[0] != "K20" {
            return None;
        }
        let mut hist = Vec::new();
        if f[1] != "-" {
            for h in f[1].split(',') {
                hist.push(if h == "." { String::new() } else { String::from_utf8(unhex(h)?).ok()? });
            }
        }
        let mut keys = Vec::new();
        if f[2] != "-" {
            for t in f[2].split(',') {
                keys.push(parse_key(t)?);
            }
        }
        Some(Case { hist, keys })
    }
}

fn show_view(v: &EditorView) -> String {
    format!("{}/{}/{}/{}", hex(v.0.as_bytes()), v.1, v.2, hex(v.4.as_bytes()))
}

pub struct Obs {
    pub line: String,
    pub submits: usize,
    pub commands: usize,
    pub panicked: bool,
    pub max_cursor_excess: usize,
}

/// Run the real `Read::read` of a hooked `Terminal` on the scripted keys until they are used up.
pub fn run_case(c: &Case) -> Obs {
    let mut term = Terminal::verif_new(c.hist.clone());
    let mut cmds: Vec<String> = Vec::new();
    editor_script_keys(Some(c.keys.clone()));
    let out = guarded(|| {
        let r = catch_unwind(AssertUnwindSafe(|| loop {
            match term.verif_read() {
                Some(cmd) => cmds.push(cmd),
                None => break,
            }
        }));
        if let Err(p) = r {
            if p.downcast_ref::<VerifKeysExhausted>().is_none() {
                resume_unwind(p);
            }
        }
    });
    let views = editor_take_views();
    editor_script_keys(None);
    let mut s = String::new();
    let mut submits = 0;
    let mut excess = 0;
    for (v, done) in &views {
        s.push_str(&show_view(v));
        if *done {
            s.push('!');
            submits += 1;
        }
        s.push(' ');
        let n = v.4.chars().count();
        if v.1 > n {
            excess = excess.max(v.1 - n);
        }
    }
    s.push_str("| ");
    s.push_str(&join_or_dash(cmds.iter().map(|c| hex_item(c)).collect()));
    let panicked = !matches!(out, Outcome::Ok);
    if panicked {
        s.push_str(" | panic");
    } else {
        let v = term.verif_view();
        s.push_str(&format!(" | {}/{} | {}", show_view(&v), term.verif_byte_cursor(),
            join_or_dash(v.3.iter().map(|h| hex_item(h)).collect())));
    }
    Obs { line: s, submits, commands: cmds.len(), panicked, max_cursor_excess: excess }
}

// ------------------------------------------------------------------------------------------
// generators

fn alphabet() -> Vec<Key> {
    vec![
        Key::Char('a'), Key::Char('b'), Key::Char(' '), Key::Char('+'), Key::Char('é'), Key::Char('😀'),
        Key::Backspace, Key::Delete, Key::Left, Key::Right, Key::CtrlLeft, Key::CtrlRight,
        Key::Up, Key::Down, Key::Enter,
    ]
}

fn s(x: &str) -> String { x.to_string() }

fn histories() -> Vec<Vec<String>> {
    vec![vec![], vec![s("ab c")], vec![s("é x"), s("q")]]
}

fn keys_of(text: &str) -> Vec<Key> {
    text.chars().map(Key::Char).collect()
}

/// Witnesses of every defect / disagreement ever found (run first, on shard 0).
pub fn corpus() -> Vec<Case> {
    use Key::*;
    let mut v = Vec::new();
    // D22: a multi-byte character before a Ctrl+Right: byte index used as char index
    let mut k = keys_of("éa b");
    k.extend([Left, Left, Left, Left, CtrlRight, Char('x'), Enter]);
    v.push(Case { hist: vec![], keys: k });
    let mut k = keys_of("é");
    k.extend([Left, CtrlRight, Char('a')]);
    v.push(Case { hist: vec![], keys: k });
    let mut k = keys_of("😀 b");
    k.extend([CtrlLeft, CtrlLeft, CtrlRight, CtrlRight, CtrlLeft, Backspace, Delete, Enter]);
    v.push(Case { hist: vec![], keys: k });
    // D22 through a history entry
    v.push(Case { hist: vec![s("é x"), s("q")], keys: vec![Up, Up, CtrlLeft, CtrlLeft, CtrlRight, CtrlRight, Char('a'), Enter] });
    // Ctrl+Right from a word followed only by blanks stopped on the first blank
    let mut k = keys_of("ab  ");
    k.extend([CtrlLeft, CtrlRight, Char('x'), Enter]);
    v.push(Case { hist: vec![], keys: k });
    let mut k = keys_of("+ ");
    k.extend([CtrlLeft, CtrlRight, Char('x'), Enter]);
    v.push(Case { hist: vec![], keys: k });
    // Backspace / Delete with nothing to delete on a history entry replaced the new line
    let mut k = keys_of("abc");
    k.extend([Up, Left, Backspace, Down, Enter]);
    v.push(Case { hist: vec![s("q")], keys: k });
    let mut k = keys_of("abc");
    k.extend([Up, Delete, Down, Enter]);
    v.push(Case { hist: vec![s("q")], keys: k });
    let mut k = keys_of("ab");
    k.extend([Up, Up, Delete, Up, Enter]);
    v.push(Case { hist: vec![s("é x"), s("q")], keys: k });
    // `;` splitting with multi-byte characters before the `;`
    let mut k = keys_of("é;😀 b;;x");
    k.extend([Enter, Up, Enter, Char(';'), Enter]);
    v.push(Case { hist: vec![], keys: k });
    // blank line is cleared, not submitted; same line twice is stored once
    let mut k = keys_of(" \u{a0}\u{2003}");
    k.extend([Enter, Char('a'), Enter, Char('a'), Enter, Up, Up, Down, Down, Down]);
    v.push(Case { hist: vec![], keys: k });
    // the history stores a line unless it is EXACTLY the previous one: consecutive lines that are
    // equal only up to letter case, a trailing blank, Unicode case or normalisation are both kept,
    // and recalling them gives back each as it was typed
    for (l1, l2) in [
        ("ab", "AB"), ("print Msg", "print msg"), ("a", "a "), (" a", "a"), ("é", "É"), ("ß", "SS"), ("é", "e\u{301}"),
        ("ǆ", "ǅ"), ("x1", "X1"), ("a;b", "A;b"),
    ] {
        let mut k = keys_of(l1);
        k.push(Enter);
        k.extend(keys_of(l2));
        k.extend([Enter, Up, Enter, Up, Up, Enter, Up, Up, Up, Enter]);
        v.push(Case { hist: vec![], keys: k });
        let mut k = keys_of(l2);
        k.extend([Enter, Up, Enter, Up, Up, Enter]);
        v.push(Case { hist: vec![s(l1)], keys: k });
        let mut k = keys_of(l1);
        k.extend([Enter, Up, Up, Enter]);
        v.push(Case { hist: vec![s(l2), s(l1)], keys: k });
    }
    // word motions over characters that are alphanumeric without being ASCII digits or letters
    // (fullwidth digit, superscript, vulgar fraction, Arabic-Indic digit, Roman numeral)
    for w in ["print r２", "a２b ２", "x²y", "½a b½", "٣a", "aⅧ Ⅷ", "r２+２r"] {
        for back in 1..=3 {
            let mut k = keys_of(w);
            for _ in 0..back {
                k.push(CtrlLeft);
            }
            k.extend([Delete, Char('!'), CtrlRight, Char('?'), Enter]);
            v.push(Case { hist: vec![], keys: k });
        }
    }
    // control characters are ignored
    v.push(Case { hist: vec![s("ab c")], keys: vec![Char('\u{1}'), Char('\u{7f}'), Char('\u{1f}'), Up, Char('\u{0}'), Char('\u{80}'), Enter] });
    v
}

const EXTRA: &[char] = &[
    'a', 'b', 'z', 'Q', '0', '7', ' ', ' ', '+', '-', '_', ';', ';', '.', 'é', 'ß', '😀', '\u{a0}', '\u{2003}',
    '\u{3000}', '\u{2028}', '\u{85}', '中', '文', 'あ', '\u{301}', '\u{20dd}', '٣', 'Ⅷ', '²', '\t', '\u{1b}', '\u{7f}',
    '\u{80}', '\u{10ffff}', '\u{200b}', 'ǅ',
    // first and last characters of every UTF-8 length class and lead byte (C2/DF, E0/E1/ED/EE/EF, F0/F1/F4)
    '\u{7ff}', '\u{800}', 'ก', '\u{fff}', '\u{1000}', '\u{d7ff}', '\u{e000}', '\u{fffd}', '\u{10000}', '\u{40000}', '\u{100000}',
];

fn random_text(r: &mut Rng, max: u64) -> String {
    let n = 1 + r.below(max);
    let mut t = String::new();
    for _ in 0..n {
        let c = *r.pick(EXTRA);
        if (c as u32) < 0x20 || c as u32 == 0x7f {
            continue;
        }
        t.push(c);
    }
    if t.trim().is_empty() {
        t.push('k');
    }
    t
}

fn random_history(r: &mut Rng) -> Vec<String> {
    match r.below(4) {
        0 => vec![],
        1 => histories()[1 + r.below(2) as usize].clone(),
        _ => (0..1 + r.below(4)).map(|_| random_text(r, 8)).collect(),
    }
}

fn random_key(r: &mut Rng) -> Key {
    match r.below(100) {
        0..=39 => Key::Char(*r.pick(EXTRA)),
        40..=46 => Key::Backspace,
        47..=52 => Key::Delete,
        53..=60 => Key::Left,
        61..=66 => Key::Right,
        67..=75 => Key::CtrlLeft,
        76..=84 => Key::CtrlRight,
        85..=90 => Key::Up,
        91..=95 => Key::Down,
        _ => Key::Enter,
    }
}

/// Random key sequence of length ≤ 60.
fn random_case(r: &mut Rng) -> Case {
    let n = r.below(61);
    Case { hist: random_history(r), keys: (0..n).map(|_| random_key(r)).collect() }
}

/// The `read_line` + `get_next_command` path: whole lines containing `;` (with multi-byte
/// characters before it), some cursor movement, Enter; one to three lines.
fn random_line_case(r: &mut Rng) -> Case {
    let mut keys = Vec::new();
    for _ in 0..1 + r.below(3) {
        for _ in 0..1 + r.below(4) {
            keys.extend(keys_of(&random_text(r, 5)));
            if r.chance(2, 3) {
                keys.push(Key::Char(';'));
            }
        }
        for _ in 0..r.below(4) {
            keys.push(random_key(r));
        }
        keys.push(Key::Enter);
    }
    keys.truncate(60);
    Case { hist: random_history(r), keys }
}

#[derive(Default)]
struct Stats {
    by_gen: BTreeMap<String, u64>,
    key_kinds: BTreeMap<String, u64>,
    len_hist: Vec<u64>,
    multibyte_chars: u64,
    submits: u64,
    commands: u64,
    panics: u64,
    cursor_past_line: u64,
    samples: Vec<String>,
}

impl Stats {
    fn note(&mut self, gen: &str, c: &Case, o: &Obs, rq: &str) {
        *self.by_gen.entry(gen.to_string()).or_default() += 1;
        for k in &c.keys {
            let name = match k {
                Key::Char(ch) => {
                    if ch.len_utf8() > 1 {
                        self.multibyte_chars += 1;
                    }
                    "Char".to_string()
                }
                other => key_token(other),
            };
            *self.key_kinds.entry(name).or_default() += 1;
        }
        let b = (c.keys.len() / 5).min(12);
        if self.len_hist.len() < 13 {
            self.len_hist.resize(13, 0);
        }
        self.len_hist[b] += 1;
        self.submits += o.submits as u64;
        self.commands += o.commands as u64;
        self.panics += o.panicked as u64;
        self.cursor_past_line += (o.max_cursor_excess > 0) as u64;
        if self.samples.len() < 3 && c.keys.len() >= 4 && o.submits > 0 {
            self.samples.push(format!("{rq} => {}", o.line));
        }
    }
    fn json(&self, exhaustive_len: usize) -> String {
        let m = |m: &BTreeMap<String, u64>| {
            format!("{{{}}}", m.iter().map(|(k, v)| format!("\"{k}\": {v}")).collect::<Vec<_>>().join(", "))
        };
        format!(
            "{{\"generator\": {}, \"key_kinds\": {}, \"keys_per_case_buckets_of_5\": [{}], \"multibyte_chars_typed\": {}, \
             \"lines_submitted\": {}, \"commands_read\": {}, \"panics\": {}, \"cases_with_cursor_past_line\": {}, \
             \"exhaustive_sweep\": {{\"all key sequences up to length {} over 15 keys x 3 histories (cases of this shard)\": {}}}, \"samples\": [{}]}}",
            m(&self.by_gen), m(&self.key_kinds),
            self.len_hist.iter().map(|x| x.to_string()).collect::<Vec<_>>().join(", "),
            self.multibyte_chars, self.submits, self.commands, self.panics, self.cursor_past_line, exhaustive_len,
            self.by_gen.get("exhaustive").copied().unwrap_or(0),
            self.samples.iter().map(|s| format!("\"{}\"", s.replace('\\', "\\\\").replace('"', "\\\""))).collect::<Vec<_>>().join(", ")
        )
    }
}

pub fn run(o: &Opts) {
    let mut cap = Capture::install();
    let mut sink = Sink::new(o);
    let mut st = Stats::default();
    let mut n_since = 0u32;
    let mut emit = |gen: &str, c: &Case, sink: &mut Sink, st: &mut Stats, cap: &mut Capture| {
        n_since += 1;
        if n_since % 4096 == 1 {
            cap.begin();
        }
        let rq = c.request();
        let ob = run_case(c);
        st.note(gen, c, &ob, &rq);
        sink.put(&rq, &ob.line);
    };

    if let Some(path) = &o.replay {
        for line in std::fs::read_to_string(path).unwrap().lines() {
            if line.trim().is_empty() {
                continue;
            }
            match Case::parse(line) {
                Some(c) => emit("replay", &c, &mut sink, &mut st, &mut cap),
                None => sink.put(line, "bad-request"),
            }
        }
        sink.finish(o, &st.json(0));
        return;
    }

    if o.shard == 0 {
        for c in corpus() {
            emit("corpus", &c, &mut sink, &mut st, &mut cap);
        }
    }

    // exhaustive: every key sequence up to length 4 (quick) / 5 (thorough) from three histories
    let alpha = alphabet();
    let maxlen = if o.thorough { 5 } else { 4 };
    let mut idx: u64 = 0;
    for h in histories() {
        for len in 0..=maxlen {
            let total = (alpha.len() as u64).pow(len as u32);
            for code in 0..total {
                idx += 1;
                if idx % o.nshards as u64 != o.shard as u64 {
                    continue;
                }
                let mut keys = Vec::with_capacity(len);
                let mut x = code;
                for _ in 0..len {
                    keys.push(alpha[(x % alpha.len() as u64) as usize]);
                    x /= alpha.len() as u64;
                }
                let c = Case { hist: h.clone(), keys };
                emit("exhaustive", &c, &mut sink, &mut st, &mut cap);
            }
        }
    }

    // random long sequences and the read_line / `;` path
    let mut r = Rng::new(o.seed ^ (0xC20 << 20) ^ (o.shard as u64) << 40);
    let (n_rand, n_line) = if o.thorough { (20000, 8000) } else { (1500, 600) };
    for _ in 0..n_rand {
        let c = random_case(&mut r);
        emit("random", &c, &mut sink, &mut st, &mut cap);
    }
    for _ in 0..n_line {
        let c = random_line_case(&mut r);
        emit("lines", &c, &mut sink, &mut st, &mut cap);
    }
    sink.finish(o, &st.json(maxlen));
}

// ------------------------------------------------------------------ C20T (real terminal)

/// Sessions typed into a pseudo-terminal (see `tty::debug_session`): lines of `echo @…` commands
/// separated by `;`, edited with every key the editor knows, history recall, ended by `exit`.
fn tty_case(r: &mut Rng) -> Case {
    // (entries ending in blanks included: the history file must give them back as they were typed)
    const WORDS: [&str; 12] = ["@a", "@b1", "@é", "@中x", "@12", "@a b", "@", "@ab  c", "@t ", "@u  ", "@v\t", "@２x"];
    const INS: [char; 10] = ['a', 'b', '1', 'é', ' ', ';', '@', '中', 'ก', '\u{7ff}'];
    let mut hist = Vec::new();
    for _ in 0..r.below(3) {
        hist.push(format!("echo {}", r.pick(&WORDS)));
    }
    let mut keys = Vec::new();
    for _ in 0..1 + r.below(3) {
        if !hist.is_empty() || !keys.is_empty() {
            for _ in 0..r.below(3) {
                keys.push(if r.chance(2, 3) { Key::Up } else { Key::Down });
            }
        }
        for seg in 0..1 + r.below(3) {
            if seg > 0 {
                keys.push(Key::Char(';'));
            }
            keys.extend(keys_of(&format!("echo {}", r.pick(&WORDS))));
        }
        for _ in 0..r.below(7) {
            keys.push(match r.below(10) {
                0 => Key::Left,
                1 => Key::Right,
                2 => Key::CtrlLeft,
                3 => Key::CtrlRight,
                4 => Key::Backspace,
                5 => Key::Delete,
                6 => Key::Up,
                7 => Key::Down,
                _ => Key::Char(*r.pick(&INS)),
            });
        }
        if r.chance(1, 6) {
            keys.push(Key::Enter); // possibly on a blank line
        }
        keys.push(Key::Enter);
    }
    // leave whatever line is focused, type `exit` on a fresh one
    for _ in 0..4 {
        keys.push(Key::Down);
    }
    for _ in 0..40 {
        keys.push(Key::Backspace);
    }
    keys.extend(keys_of("exit"));
    keys.push(Key::Enter);
    Case { hist, keys }
}

pub fn run_tty(o: &Opts) {
    let mut sink = Sink::new(o);
    let tmp = crate::cli::TmpDir::new(&format!("c20t-{}", o.shard));
    let dir = tmp.0.clone();
    let req = |c: &Case| c.request().replacen("K20", "U20", 1);
    if let Some(path) = &o.replay {
        for line in std::fs::read_to_string(path).unwrap().lines() {
            match Case::parse(&line.replacen("U20", "K20", 1)) {
                Some(c) => sink.put(line, &crate::tty::debug_session(&dir, &c.hist, &c.keys)),
                None => sink.put(line, "bad-request"),
            }
        }
        sink.finish(o, "{}");
        return;
    }
    let mut rng = Rng::new(o.seed.wrapping_mul(40503) ^ (o.shard as u64) << 32 ^ 0x20_7717);
    let total = if o.thorough { 30 } else { 5 };
    let mut kinds: BTreeMap<String, u64> = BTreeMap::new();
    // lines whose cursor column reaches the 16-bit limit of the terminal backend (prompt + cursor
    // = 0xFFFF and beyond): recalled from the history, submitted, then `exit`
    let mut directed: Vec<Case> = Vec::new();
    for (i, n) in [65_529usize, 65_530, 70_000].into_iter().enumerate() {
        if (i + 3) % o.nshards == o.shard {
            let line = format!("echo @{}", "a".repeat(n - 6));
            let mut keys = vec![Key::Up, Key::Left, Key::Right, Key::Enter];
            keys.extend(keys_of("exit"));
            keys.push(Key::Enter);
            directed.push(Case { hist: vec![line], keys });
        }
    }
    // history entries ending in blanks, recalled in a NEW process and completed by typing
    if o.shard == 6 % o.nshards {
        for h in ["echo ", "echo  ", "echo @x ", "echo\t"] {
            let mut keys = vec![Key::Up];
            keys.extend(keys_of("@z"));
            keys.push(Key::Enter);
            keys.extend(keys_of("exit"));
            keys.push(Key::Enter);
            directed.push(Case { hist: vec!["echo @first".to_string(), h.to_string()], keys });
        }
    }
    // history FILES of many lines (a new process reads them all back): recall the newest, an older
    // one, run past the oldest, come back down
    for (i, n) in [999usize, 1000, 1001, 1025, 4097, 70_000].into_iter().enumerate() {
        if (i + 8) % o.nshards == o.shard {
            let hist: Vec<String> = (0..n).map(|k| format!("echo @h{}", k)).collect();
            let mut keys = vec![Key::Up, Key::Enter, Key::Up, Key::Up, Key::Up, Key::Enter];
            keys.extend(std::iter::repeat(Key::Up).take(6));
            keys.extend([Key::Down, Key::Down, Key::Enter]);
            keys.extend(std::iter::repeat(Key::Down).take(12));
            keys.extend(keys_of("exit"));
            keys.push(Key::Enter);
            directed.push(Case { hist, keys });
        }
    }
    for c in directed {
        *kinds.entry("long-line-session".into()).or_default() += 1;
        sink.put(&req(&c), &crate::tty::debug_session(&dir, &c.hist, &c.keys));
    }
    for _ in 0..total {
        let c = tty_case(&mut rng);
        for k in &c.keys {
            *kinds.entry(key_token(k).chars().take_while(|ch| !ch.is_ascii_digit() || ch.is_ascii_uppercase()).collect::<String>()).or_default() += 1;
        }
        sink.put(&req(&c), &crate::tty::debug_session(&dir, &c.hist, &c.keys));
    }
    let n = sink.n;
    let kk = kinds.iter().map(|(k, v)| format!("\"{}\":{}", k, v)).collect::<Vec<_>>().join(",");
    sink.finish(o, &format!("{{\"cases\":{},\"tty_sessions\":{},\"tty_keys\":{{{}}},\"samples\":[]}}", n, n, kk));
}
