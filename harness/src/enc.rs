//! C01 / C04: three-way check implementation vs model vs specification on ABSTRACT programs.
//!
//! A case is an abstract program ([`AProg`]: optional `.orig`s, `.break`s, statements with
//! register numbers, literal words, label identities) rendered to text under one or two random
//! layouts.  Request
//!   `P01 <stack 0/1> <hex text1> <hex text2 | => <item>*`        (item syntax: `lean/Driver/Enc.lean`)
//! The driver computes `spec(P)` from the items alone (`Lace/Spec/Prog.lean`) and `model(text)`
//! from the texts alone; the implementation line is what the real assembler did with the text(s):
//!   `ok <orig|-> <n> <words…>` | `reject` | `panic` | `layout-diff <o1> ## <o2>`
use crate::asm::observe_core;
use crate::asmgen::{layout, layout_plain, rand_case, Piece, LABEL_POOL, WIDE};
use crate::cap::{hex, unhex, Capture};
use crate::prng::Rng;
use std::collections::BTreeMap;

#[derive(Clone, Debug)]
pub enum Loc {
    Label(usize),
    Lit(u16),
}

#[derive(Clone, Debug)]
pub enum St {
    AddReg(u8, u8, u8),
    AddImm(u8, u8, u16),
    AndReg(u8, u8, u8),
    AndImm(u8, u8, u16),
    Br(u8, Loc),
    Jmp(u8),
    Jsr(Loc),
    Jsrr(u8),
    Ld(u8, Loc),
    Ldi(u8, Loc),
    Lea(u8, Loc),
    Sto(u8, Loc),
    Sti(u8, Loc),
    Ldr(u8, u8, u16),
    Str(u8, u8, u16),
    Not(u8, u8),
    Ret,
    Rti,
    Trap(u16),
    Named(u8),
    Push(u8),
    Pop(u8),
    Call(usize),
    Rets,
    Fill(u16),
    Blkw(u16),
    Strz(String),
}

#[derive(Clone, Debug)]
pub enum It {
    Orig(u16),
    Brk,
    Stmt(Option<usize>, St),
}

/// How literals are spelled.
#[derive(Clone, Copy, Debug, PartialEq)]
pub enum Spell {
    Any,
    /// `#d` with the signed reading
    Dec,
    /// `#d` with the unsigned reading (`#65535`)
    DecU,
    Hex,
    /// `x-H` for words whose signed reading is negative, `xH` otherwise
    NegHex,
}

#[derive(Clone, Debug, Default)]
pub struct AProg {
    pub items: Vec<It>,
    /// label identity -> name (distinct identities have distinct names)
    pub names: Vec<String>,
}

const NAMED: [&str; 8] = ["getc", "out", "puts", "in", "putsp", "halt", "putn", "reg"];

fn br_name(rng: &mut Rng, nzp: u8) -> &'static str {
    match nzp {
        4 => "brn",
        2 => "brz",
        1 => "brp",
        6 => "brnz",
        3 => "brzp",
        5 => "brnp",
        _ => {
            if rng.chance(1, 2) {
                "br"
            } else {
                "brnzp"
            }
        }
    }
}

pub fn spell(rng: &mut Rng, mode: Spell, w: u16) -> String {
    let s = w as i16 as i32;
    match mode {
        Spell::Any => crate::asmgen::spell_lit(rng, w as i32),
        Spell::Dec => format!("#{}", s),
        Spell::DecU => format!("#{}", w),
        Spell::Hex => format!("{}{:x}", rng.pick(&["x", "X", "0x", "0X"]), w),
        Spell::NegHex => {
            if s < 0 {
                format!("{}-{:X}", rng.pick(&["x", "0x"]), -s)
            } else {
                format!("x{:X}", w)
            }
        }
    }
}

impl AProg {
    pub fn stmt_count(&self) -> usize {
        self.items.iter().filter(|i| matches!(i, It::Stmt(..))).count()
    }

    fn loc_item(l: &Loc) -> String {
        match l {
            Loc::Label(id) => format!("L{}", id),
            Loc::Lit(w) => format!("#{:04x}", w),
        }
    }

    /// The abstract program as request fields.
    pub fn serialise(&self) -> String {
        let mut out: Vec<String> = Vec::with_capacity(self.items.len());
        for it in &self.items {
            out.push(match it {
                It::Orig(w) => format!("o:{:04x}", w),
                It::Brk => "k".into(),
                It::Stmt(l, s) => {
                    let lab = l.map(|x| x.to_string()).unwrap_or("-".into());
                    let body = match s {
                        St::AddReg(d, a, b) => format!("add:{d}:{a}:r{b}"),
                        St::AddImm(d, a, w) => format!("add:{d}:{a}:#{w:04x}"),
                        St::AndReg(d, a, b) => format!("and:{d}:{a}:r{b}"),
                        St::AndImm(d, a, w) => format!("and:{d}:{a}:#{w:04x}"),
                        St::Br(f, l) => format!("br:{f}:{}", Self::loc_item(l)),
                        St::Jmp(b) => format!("jmp:{b}"),
                        St::Jsr(l) => format!("jsr:{}", Self::loc_item(l)),
                        St::Jsrr(b) => format!("jsrr:{b}"),
                        St::Ld(r, l) => format!("ld:{r}:{}", Self::loc_item(l)),
                        St::Ldi(r, l) => format!("ldi:{r}:{}", Self::loc_item(l)),
                        St::Lea(r, l) => format!("lea:{r}:{}", Self::loc_item(l)),
                        St::Sto(r, l) => format!("st:{r}:{}", Self::loc_item(l)),
                        St::Sti(r, l) => format!("sti:{r}:{}", Self::loc_item(l)),
                        St::Ldr(d, b, w) => format!("ldr:{d}:{b}:{w:04x}"),
                        St::Str(d, b, w) => format!("str:{d}:{b}:{w:04x}"),
                        St::Not(d, s) => format!("not:{d}:{s}"),
                        St::Ret => "ret".into(),
                        St::Rti => "rti".into(),
                        St::Trap(w) => format!("trap:{w:04x}"),
                        St::Named(k) => format!("nt:{k}"),
                        St::Push(r) => format!("push:{r}"),
                        St::Pop(r) => format!("pop:{r}"),
                        St::Call(id) => format!("call:L{id}"),
                        St::Rets => "rets".into(),
                        St::Fill(w) => format!("fill:{w:04x}"),
                        St::Blkw(w) => format!("blkw:{w:04x}"),
                        St::Strz(b) => format!("strz:{}", hex(b.as_bytes())),
                    };
                    format!("s:{lab}:{body}")
                }
            });
        }
        out.join(" ")
    }

    /// Token spellings of the program (keyword case, register case, literal spelling random).
    pub fn pieces(&self, rng: &mut Rng, mode: Spell) -> Vec<Piece> {
        let mut out: Vec<Piece> = Vec::new();
        let reg = |rng: &mut Rng, r: u8| format!("{}{}", if rng.chance(1, 2) { "r" } else { "R" }, r);
        for it in &self.items {
            match it {
                It::Orig(w) => {
                    out.push(Piece { text: rand_case(rng, ".orig"), eol: false });
                    out.push(Piece { text: spell(rng, mode, *w), eol: true });
                }
                It::Brk => out.push(Piece { text: rand_case(rng, ".break"), eol: true }),
                It::Stmt(l, s) => {
                    if let Some(id) = l {
                        out.push(Piece { text: self.names[*id].clone(), eol: rng.chance(1, 5) });
                    }
                    let loc = |rng: &mut Rng, l: &Loc| match l {
                        Loc::Label(id) => self.names[*id].clone(),
                        Loc::Lit(w) => spell(rng, mode, *w),
                    };
                    let (op, args): (String, Vec<String>) = match s {
                        St::AddReg(d, a, b) => ("add".into(), vec![reg(rng, *d), reg(rng, *a), reg(rng, *b)]),
                        St::AddImm(d, a, w) => ("add".into(), vec![reg(rng, *d), reg(rng, *a), spell(rng, mode, *w)]),
                        St::AndReg(d, a, b) => ("and".into(), vec![reg(rng, *d), reg(rng, *a), reg(rng, *b)]),
                        St::AndImm(d, a, w) => ("and".into(), vec![reg(rng, *d), reg(rng, *a), spell(rng, mode, *w)]),
                        St::Br(f, l) => (br_name(rng, *f).into(), vec![loc(rng, l)]),
                        St::Jmp(b) => ("jmp".into(), vec![reg(rng, *b)]),
                        St::Jsr(l) => ("jsr".into(), vec![loc(rng, l)]),
                        St::Jsrr(b) => ("jsrr".into(), vec![reg(rng, *b)]),
                        St::Ld(r, l) => ("ld".into(), vec![reg(rng, *r), loc(rng, l)]),
                        St::Ldi(r, l) => ("ldi".into(), vec![reg(rng, *r), loc(rng, l)]),
                        St::Lea(r, l) => ("lea".into(), vec![reg(rng, *r), loc(rng, l)]),
                        St::Sto(r, l) => ("st".into(), vec![reg(rng, *r), loc(rng, l)]),
                        St::Sti(r, l) => ("sti".into(), vec![reg(rng, *r), loc(rng, l)]),
                        St::Ldr(d, b, w) => ("ldr".into(), vec![reg(rng, *d), reg(rng, *b), spell(rng, mode, *w)]),
                        St::Str(d, b, w) => ("str".into(), vec![reg(rng, *d), reg(rng, *b), spell(rng, mode, *w)]),
                        St::Not(d, s) => ("not".into(), vec![reg(rng, *d), reg(rng, *s)]),
                        St::Ret => ("ret".into(), vec![]),
                        St::Rti => ("rti".into(), vec![]),
                        St::Trap(w) => ("trap".into(), vec![spell(rng, mode, *w)]),
                        St::Named(k) => (NAMED[*k as usize].into(), vec![]),
                        St::Push(r) => ("push".into(), vec![reg(rng, *r)]),
                        St::Pop(r) => ("pop".into(), vec![reg(rng, *r)]),
                        St::Call(id) => ("call".into(), vec![self.names[*id].clone()]),
                        St::Rets => ("rets".into(), vec![]),
                        St::Fill(w) => (".fill".into(), vec![spell(rng, mode, *w)]),
                        St::Blkw(w) => (".blkw".into(), vec![spell(rng, if mode == Spell::Any && (*w as i16) < 0 { Spell::Hex } else { mode }, *w)]),
                        St::Strz(b) => (".stringz".into(), vec![format!("\"{}\"", b)]),
                    };
                    out.push(Piece { text: rand_case(rng, &op), eol: args.is_empty() });
                    let n = args.len();
                    for (i, a) in args.into_iter().enumerate() {
                        out.push(Piece { text: a, eol: i + 1 == n });
                    }
                }
            }
        }
        out
    }

    /// One text: `plain` = one space between tokens, one statement per line.
    pub fn render(&self, rng: &mut Rng, mode: Spell, plain: bool) -> String {
        let ps = self.pieces(rng, mode);
        let mut t = if plain { layout_plain(&ps) } else { layout(rng, &ps) };
        if !plain && rng.chance(1, 8) {
            // everything after `.end` is ignored
            if !t.ends_with(|c: char| c.is_ascii_whitespace()) {
                t.push('\n');
            }
            t.push_str(&rand_case(rng, ".end"));
            t.push_str(*rng.pick(&["", "\n", " add r0", "\nlbl lbl lbl \"", " é #99999 .orig"]));
        }
        t
    }
}

/// A layout with a comment (and a line break) after EVERY token, also between a directive and its
/// operand (finding C01-1: lace used to reject a comment between .fill/.blkw/.stringz and its operand).
pub fn layout_commented(ps: &[Piece]) -> String {
    let mut s = String::from("; header\n");
    for (i, p) in ps.iter().enumerate() {
        s.push_str(&p.text);
        s.push_str(if i % 2 == 0 { " ; c\n" } else { "\t;\"x\n  ; second line\n\t" });
    }
    s
}

/// Distinct label names for `n` identities (valid labels whatever the stack flag).

pub const KEYWORDS: &[&str] = &[
    "add", "and", "br", "brnzp", "brnz", "brzp", "brnp", "brn", "brz", "brp", "jmp", "jsr", "jsrr", "ld", "ldi", "ldr",
    "lea", "not", "ret", "rti", "st", "sti", "str", "pop", "push", "call", "rets", "trap", "getc", "out", "puts", "in",
    "putsp", "halt", "putn", "reg",
];

/// Label names that look like keywords with something stuck on: `xout`, `Xret`, `0xhalt`,
/// `_add`, `halt1`, … — every one a plain label (not a literal, register or keyword).
pub fn lookalike_names() -> Vec<String> {
    let mut v = Vec::new();
    let is_lit = |n: &str| {
        let l = n.to_ascii_lowercase();
        let body = l.strip_prefix("0x").or_else(|| l.strip_prefix('x'));
        match body {
            Some(b) => {
                let b = b.strip_prefix('-').unwrap_or(b);
                !b.is_empty() && b.chars().all(|c| c.is_ascii_hexdigit())
            }
            None => false,
        }
    };
    for k in KEYWORDS {
        for pre in ["x", "X", "0x", "0X", "_", "r", "R", "xx", "x_"] {
            for up in [false, true] {
                let k2 = if up { k.to_ascii_uppercase() } else { k.to_string() };
                v.push(format!("{}{}", pre, k2));
            }
        }
        for suf in ["_", "1", "x", "q"] {
            v.push(format!("{}{}", k, suf));
        }
    }
    v.retain(|n| !is_lit(n) && !KEYWORDS.contains(&n.to_ascii_lowercase().as_str()));
    v.sort();
    v.dedup();
    v
}

pub fn label_names(rng: &mut Rng, n: usize) -> Vec<String> {
    let mut names: Vec<String> = Vec::new();
    while names.len() < n {
        let cand = if rng.chance(1, 8) {
            let l = lookalike_names();
            l[rng.below(l.len() as u64) as usize].clone()
        } else if names.len() < 24 && rng.chance(2, 3) {
            rng.pick(LABEL_POOL).to_string()
        } else {
            format!("{}{}", rng.pick(&["L", "lbl_", "t", "X_", "zz", "Q", "_"]), rng.below(100_000))
        };
        if !names.contains(&cand) {
            names.push(cand);
        }
    }
    names
}

pub struct Case {
    pub gen: &'static str,
    pub stack: bool,
    pub prog: AProg,
    pub text1: String,
    pub text2: Option<String>,
}

impl Case {
    pub fn request(&self) -> String {
        format!(
            "P01 {} {} {} {}",
            self.stack as u8,
            hex(self.text1.as_bytes()),
            self.text2.as_ref().map(|t| hex(t.as_bytes())).unwrap_or("=".into()),
            self.prog.serialise()
        )
    }
}

/// canonical observation of one text, and the diagnostic kind (for the statistics)
fn canon(stack: bool, text: &str) -> (String, String) {
    let obs = observe_core(stack, text, true);
    if obs.starts_with("ok ") {
        let cut = obs.find(" |").unwrap_or(obs.len());
        (obs[..cut].to_string(), "ok".into())
    } else if obs.starts_with("diag ") {
        ("reject".into(), format!("reject:{}", obs.split(' ').nth(1).unwrap_or("?")))
    } else {
        let w = obs.split(' ').next().unwrap_or("").to_string();
        (obs.clone(), w)
    }
}

pub fn observe(cap: &mut Capture, stack: bool, t1: &str, t2: Option<&str>) -> (String, String) {
    cap.begin();
    let (o1, k1) = canon(stack, t1);
    let r = match t2 {
        None => (o1, k1),
        Some(t2) => {
            let (o2, _) = canon(stack, t2);
            if o1 == o2 {
                (o1, k1)
            } else {
                (format!("layout-diff {} ## {}", o1, o2), "layout-diff".into())
            }
        }
    };
    let _ = cap.end();
    r
}

// ------------------------------------------------------------------------------------------
// generators

struct Ctx<'a> {
    o: &'a crate::Opts,
    cap: Capture,
    sink: crate::Sink,
    idx: u64,
    gens: BTreeMap<String, u64>,
    outcomes: BTreeMap<String, u64>,
    stmts: u64,
    texts: u64,
    samples: Vec<String>,
    max_ms: u128,
}

impl<'a> Ctx<'a> {
    /// Is the next case this shard's?  (Every case has a global index; its random choices are
    /// seeded from the index, so the set of cases does not depend on the number of shards.)
    fn mine(&mut self) -> Option<Rng> {
        let i = self.idx;
        self.idx += 1;
        if (i as usize) % self.o.nshards == self.o.shard {
            Some(Rng::new(self.o.seed.wrapping_mul(0x100000001B3).wrapping_add(i) ^ 0xC01C04))
        } else {
            None
        }
    }

    fn run(&mut self, c: Case) {
        let t0 = std::time::Instant::now();
        let (obs, kind) = observe(&mut self.cap, c.stack, &c.text1, c.text2.as_deref());
        self.max_ms = self.max_ms.max(t0.elapsed().as_millis());
        *self.gens.entry(c.gen.to_string()).or_insert(0) += 1;
        *self.outcomes.entry(kind).or_insert(0) += 1;
        self.stmts += c.prog.stmt_count() as u64;
        self.texts += 1 + c.text2.is_some() as u64;
        if self.samples.len() < 6 && c.text1.len() < 120 && self.sink.n % 211 == 5 {
            self.samples.push(format!(
                "{{\"generator\":\"{}\",\"stack\":{},\"program\":\"{}\",\"text\":\"{}\",\"observed\":\"{}\"}}",
                c.gen,
                c.stack,
                json_escape(&c.prog.serialise()),
                json_escape(&c.text1),
                json_escape(&obs.chars().take(100).collect::<String>())
            ));
        }
        self.sink.put(&c.request(), &obs);
    }

    /// Render under `layouts` random layouts (2: the two texts must give the same image) and run.
    fn go(&mut self, rng: &mut Rng, gen: &'static str, stack: bool, prog: AProg, mode: Spell, layouts: u8) {
        let text1 = if layouts == 0 { prog.render(rng, mode, true) } else { prog.render(rng, mode, false) };
        let text2 = if layouts >= 2 { Some(prog.render(rng, mode, false)) } else { None };
        self.run(Case { gen, stack, prog, text1, text2 });
    }
}

fn json_escape(s: &str) -> String {
    let mut o = String::new();
    for c in s.chars() {
        match c {
            '"' => o.push_str("\\\""),
            '\\' => o.push_str("\\\\"),
            '\n' => o.push_str("\\n"),
            '\r' => o.push_str("\\r"),
            '\t' => o.push_str("\\t"),
            c if (c as u32) < 0x20 => o.push_str(&format!("\\u{:04x}", c as u32)),
            c => o.push(c),
        }
    }
    o
}

/// the origins of the sweeps: none, 0, 1, x3000, x7FFF, x8000, xFDFF - n
fn origins(n: usize) -> Vec<Option<u16>> {
    vec![None, Some(0), Some(1), Some(0x3000), Some(0x7FFF), Some(0x8000), Some(0xFDFFu16.wrapping_sub(n as u16))]
}

fn with_orig(orig: Option<u16>, stmts: Vec<It>) -> Vec<It> {
    let mut v = Vec::with_capacity(stmts.len() + 1);
    if let Some(o) = orig {
        v.push(It::Orig(o));
    }
    v.extend(stmts);
    v
}

/// a PC-relative statement of the given form (0..=7: br ld ldi lea st sti jsr call)
fn pc_form(form: usize, k: usize, l: Loc) -> St {
    let r = (k % 8) as u8;
    match form {
        0 => St::Br(1 + (k % 7) as u8, l),
        1 => St::Ld(r, l),
        2 => St::Ldi(r, l),
        3 => St::Lea(r, l),
        4 => St::Sto(r, l),
        5 => St::Sti(r, l),
        6 => St::Jsr(l),
        _ => match l {
            Loc::Label(id) => St::Call(id),
            Loc::Lit(_) => St::Rets,
        },
    }
}

const PC_BITS: [u32; 8] = [9, 9, 9, 9, 9, 9, 11, 10];
const PC_NAMES: [&str; 8] = ["br", "ld", "ldi", "lea", "st", "sti", "jsr", "call"];

/// `.stringz` bodies: every escape, unknown escapes, wide characters, separators inside strings
const STRINGS: &[&str] = &[
    "", "a", "\\n", "\\t", "\\r", "\\\\", "\\\"", "\\q", "\\0", "\\x41", "\\N", "a\\nb", "\\\\n", "\\\\\\n", "\\\"\\\"",
    "tab\\there", "semi;colon", "com,ma", "co:lon", " lead", "trail ", "é", "ß→€", "😀", "𝄞x", "\u{a0}", "\u{feff}z",
    "\\é", "\\😀", "\\\\\\\\", "hello world\\n", "x3000", "#5", ".end", "r0", "halt", "\t", "\\ ", "\\;",
];

fn gen_body(rng: &mut Rng) -> String {
    if rng.chance(1, 3) {
        return rng.pick(STRINGS).to_string();
    }
    let mut s = String::new();
    for _ in 0..rng.below(10) {
        match rng.below(16) {
            0 => s.push_str("\\n"),
            1 => s.push_str("\\t"),
            2 => s.push_str("\\\""),
            3 => s.push_str("\\\\"),
            4 => s.push_str("\\r"),
            5 => s.push_str("\\q"),
            6 => s.push_str(*rng.pick(WIDE)),
            7 => s.push(' '),
            8 => s.push(';'),
            9 => s.push(','),
            10 => s.push(':'),
            _ => s.push((b'a' + rng.below(26) as u8) as char),
        }
    }
    s
}

/// number of words of a `.stringz` body (mirrors the five escapes; only used to place labels)
fn body_words(b: &str) -> usize {
    let cs: Vec<char> = b.chars().collect();
    let (mut i, mut n) = (0, 0);
    while i < cs.len() {
        if cs[i] == '\\' && i + 1 < cs.len() {
            if matches!(cs[i + 1], 'n' | 't' | 'r' | '\\' | '"') {
                n += 1;
            } else {
                n += 2;
            }
            i += 2;
        } else {
            n += 1;
            i += 1;
        }
    }
    n + 1
}

fn st_size(s: &St) -> usize {
    match s {
        St::Blkw(n) => *n as usize,
        St::Strz(b) => body_words(b),
        _ => 1,
    }
}

/// A random program: `n` statements over the whole instruction / trap / directive set with a
/// dense label graph.  `wild` = operands and distances may be out of range, labels undefined or
/// duplicated, `.orig` repeated.
pub fn gen_random(rng: &mut Rng, n: usize, stack: bool, wild: bool) -> AProg {
    // 1. shapes: which statements exist (sizes are known before labels are resolved)
    #[derive(Clone, Copy)]
    enum Shape {
        Plain,
        Pc(usize),
    }
    let mut shapes: Vec<(Shape, Option<St>)> = Vec::with_capacity(n);
    let reg = |rng: &mut Rng| rng.below(8) as u8;
    let fld = |rng: &mut Rng, bits: u32, wild: bool| -> u16 {
        let lo = -(1i32 << (bits - 1));
        let hi = (1i32 << (bits - 1)) - 1;
        crate::asmgen::field_value(rng, lo, hi, wild) as u16
    };
    for _ in 0..n {
        let k = rng.below(if stack { 30 } else { 26 });
        let s = match k {
            0 => Some(St::AddReg(reg(rng), reg(rng), reg(rng))),
            1 => Some(St::AddImm(reg(rng), reg(rng), fld(rng, 5, wild))),
            2 => Some(St::AndReg(reg(rng), reg(rng), reg(rng))),
            3 => Some(St::AndImm(reg(rng), reg(rng), fld(rng, 5, wild))),
            4 => Some(St::Jmp(reg(rng))),
            5 => Some(St::Jsrr(reg(rng))),
            6 => Some(St::Ldr(reg(rng), reg(rng), fld(rng, 6, wild))),
            7 => Some(St::Str(reg(rng), reg(rng), fld(rng, 6, wild))),
            8 => Some(St::Not(reg(rng), reg(rng))),
            9 => Some(if rng.chance(1, 2) { St::Ret } else { St::Rti }),
            10 => Some(St::Trap(if wild { crate::asmgen::field_value(rng, 0, 255, true) as u16 } else { rng.below(256) as u16 })),
            11 => Some(St::Named(reg(rng))),
            12 => Some(St::Fill(if rng.chance(1, 2) { rng.u16() } else { *rng.pick(&[0, 1, 0x7FFF, 0x8000, 0xFFFF]) })),
            13 => Some(St::Blkw(if wild && rng.chance(1, 4) { *rng.pick(&[254, 255, 256, 257, 510, 511, 512, 513, 1023, 1024, 1025]) } else { rng.below(5) as u16 })),
            14 => Some(St::Strz(gen_body(rng))),
            26 => Some(St::Push(reg(rng))),
            27 => Some(St::Pop(reg(rng))),
            28 => Some(St::Rets),
            29 => None,
            _ => None,
        };
        match s {
            Some(s) => shapes.push((Shape::Plain, Some(s))),
            None => {
                let form = if k == 29 { 7 } else { (k as usize - 15) % 7 };
                shapes.push((Shape::Pc(form), None));
            }
        }
    }
    // 2. word offsets
    let mut offs: Vec<usize> = Vec::with_capacity(n + 1);
    let mut acc = 0usize;
    for (_, s) in &shapes {
        offs.push(acc);
        acc += s.as_ref().map(st_size).unwrap_or(1);
    }
    // 3. labels: about every third statement of at least one word
    let mut label_of: Vec<Option<usize>> = vec![None; n];
    let mut labelled: Vec<usize> = Vec::new();
    for i in 0..n {
        let size = shapes[i].1.as_ref().map(st_size).unwrap_or(1);
        if size >= 1 && (rng.chance(1, 3) || (i == 0 && n < 4)) {
            label_of[i] = Some(labelled.len());
            labelled.push(i);
        }
    }
    if labelled.is_empty() {
        // make the first statement of at least one word a label target
        for i in 0..n {
            if shapes[i].1.as_ref().map(st_size).unwrap_or(1) >= 1 {
                label_of[i] = Some(0);
                labelled.push(i);
                break;
            }
        }
    }
    let mut nlabels = labelled.len();
    let mut extra_undefined: Option<usize> = None;
    // 4. resolve the PC-relative statements
    let mut items: Vec<It> = Vec::new();
    if rng.chance(2, 3) {
        items.push(It::Orig(*rng.pick(&[0x3000, 0, 1, 0x7FFF, 0x8000, 0xFDFF, 0xFFFF, 0x200, 0x4000])));
    }
    for i in 0..n {
        if rng.chance(1, 14) {
            items.push(It::Brk);
        }
        if wild && rng.chance(1, 80) {
            items.push(It::Orig(0x4000));
        }
        let st = match &shapes[i] {
            (Shape::Plain, Some(s)) => s.clone(),
            (Shape::Pc(form), _) => {
                let bits = PC_BITS[*form];
                let (lo, hi) = (-(1i64 << (bits - 1)), (1i64 << (bits - 1)) - 1);
                let here = offs[i] as i64 + 1;
                // labels in reach
                let reach: Vec<usize> = labelled
                    .iter()
                    .enumerate()
                    .filter(|(_, &j)| {
                        let d = offs[j] as i64 - here;
                        d >= lo && d <= hi
                    })
                    .map(|(id, _)| id)
                    .collect();
                let loc = if *form != 7 && (rng.chance(1, 6) || (reach.is_empty() && !wild)) {
                    Loc::Lit(fld(rng, bits.min(9), wild))
                } else if wild && rng.chance(1, 25) {
                    let id = *extra_undefined.get_or_insert_with(|| {
                        nlabels += 1;
                        nlabels - 1
                    });
                    Loc::Label(id)
                } else if wild && !labelled.is_empty() && rng.chance(1, 8) {
                    Loc::Label(rng.below(labelled.len() as u64) as usize)
                } else if !reach.is_empty() {
                    Loc::Label(*rng.pick(&reach))
                } else if !labelled.is_empty() {
                    Loc::Label(rng.below(labelled.len() as u64) as usize)
                } else {
                    Loc::Lit(0)
                };
                match (form, &loc) {
                    (7, Loc::Lit(_)) => St::Rets,
                    (7, _) if reach.is_empty() && !wild => St::Rets,
                    _ => pc_form(*form, rng.below(56) as usize, loc),
                }
            }
            _ => unreachable!(),
        };
        let mut lab = label_of[i];
        if wild && lab.is_none() && !labelled.is_empty() && st_size(&st) >= 1 && rng.chance(1, 60) {
            lab = Some(rng.below(labelled.len() as u64) as usize); // duplicate definition
        }
        items.push(It::Stmt(lab, st));
    }
    if rng.chance(1, 10) {
        items.push(It::Brk);
    }
    let names = label_names(rng, nlabels.max(1));
    AProg { items, names }
}

fn one_stmt_prog(rng: &mut Rng, st: St, orig: Option<u16>) -> AProg {
    // the statement alone, or between two others (so that a spill into a neighbour would show)
    let mut stmts = Vec::new();
    let pad = rng.below(3);
    if pad >= 1 {
        stmts.push(It::Stmt(None, St::Named(5)));
    }
    stmts.push(It::Stmt(None, st));
    if pad == 2 {
        stmts.push(It::Stmt(None, St::Fill(0xFFFF)));
    }
    AProg { items: with_orig(orig, stmts), names: vec![] }
}

/// Past witnesses (D1, D2, D6 and friends) as abstract programs.
fn corpus() -> Vec<(bool, AProg, Spell)> {
    let mut v: Vec<(bool, AProg, Spell)> = Vec::new();
    let p = |items: Vec<It>, names: &[&str]| AProg { items, names: names.iter().map(|s| s.to_string()).collect() };
    let s = |st: St| It::Stmt(None, st);
    // D1: ldr r0 r1 #-1 and neighbours
    for (d, b, off) in [(0u8, 1u8, 0xFFFFu16), (0, 1, 0xFFE0), (7, 0, 0xFFFF), (2, 7, 31), (0, 1, 0xFFDF), (0, 1, 32)] {
        v.push((true, p(vec![s(St::Ldr(d, b, off))], &[]), Spell::Dec));
        v.push((true, p(vec![s(St::Str(d, b, off))], &[]), Spell::NegHex));
    }
    // D2: upper half of the unsigned ranges
    for o in [0x8000u16, 0xFFFF, 0x7FFF, 0] {
        v.push((true, p(vec![It::Orig(o), s(St::Named(5))], &[]), Spell::Hex));
        v.push((true, p(vec![It::Orig(o)], &[]), Spell::DecU));
    }
    for t in [0x80u16, 0xFF, 0x100, 0xFFFF, 0x7F, 0x8000] {
        v.push((true, p(vec![s(St::Trap(t))], &[]), Spell::Hex));
        v.push((true, p(vec![s(St::Trap(t))], &[]), Spell::Dec));
    }
    // D3: negative literal PC offsets
    for (st, _) in [
        (St::Br(7, Loc::Lit(0xFFFE)), 0),
        (St::Ld(0, Loc::Lit(0xFFFB)), 0),
        (St::Jsr(Loc::Lit(0xFC00)), 0),
        (St::Jsr(Loc::Lit(0xFBFF)), 0),
        (St::Lea(1, Loc::Lit(0xFF00)), 0),
        (St::Br(2, Loc::Lit(255)), 0),
        (St::Br(2, Loc::Lit(256)), 0),
        (St::Br(2, Loc::Lit(0xFF00)), 0),
        (St::Br(2, Loc::Lit(0xFEFF)), 0),
        (St::Jsr(Loc::Lit(1023)), 0),
        (St::Jsr(Loc::Lit(1024)), 0),
    ] {
        v.push((true, p(vec![s(St::Named(5)), s(St::Named(5)), s(st)], &[]), Spell::Dec));
    }
    // D6: label distances 0x7FFE .. 0x8001 and the field boundaries, forward and backward
    for k in [0x7FFEu16, 0x7FFF, 0x8000, 0xFFFC, 0xFFFD] {
        v.push((true, p(vec![s(St::Br(7, Loc::Label(0))), s(St::Blkw(k)), It::Stmt(Some(0), St::Named(5))], &["x"]), Spell::Hex));
    }
    for k in [0x7FFEu16, 0x7FFF, 0x8000] {
        v.push((true, p(vec![It::Stmt(Some(0), St::Named(5)), s(St::Blkw(k)), s(St::Lea(0, Loc::Label(0)))], &["far"]), Spell::Hex));
    }
    // short label / literal references in programs of more than 32K words that straddle statement
    // 0x8000 (where 16-bit line arithmetic changes sign): all in range, all must be accepted
    for pad in [0x7FFBu16, 0x7FFC, 0x7FFD, 0x7FFE, 0x7FFF, 0x8000] {
        let forms: Vec<Box<dyn Fn(Loc) -> St>> = vec![
            Box::new(|l| St::Ld(0, l)), Box::new(|l| St::Sto(1, l)), Box::new(|l| St::Lea(2, l)), Box::new(|l| St::Br(7, l)),
            Box::new(|l| St::Jsr(l)), Box::new(|l| St::Ldi(3, l)), Box::new(|l| St::Sti(4, l)),
        ];
        for f in &forms {
            v.push((true, p(vec![s(St::Blkw(pad)), s(f(Loc::Label(0))), s(St::Named(5)), It::Stmt(Some(0), St::Fill(7))], &["data"]), Spell::Hex));
            v.push((true, p(vec![s(St::Blkw(pad)), It::Stmt(Some(0), St::Fill(7)), s(St::Named(5)), s(f(Loc::Label(0)))], &["data"]), Spell::Hex));
        }
        v.push((true, p(vec![s(St::Blkw(pad)), s(St::Br(7, Loc::Lit(0xFFFE))), s(St::Br(7, Loc::Lit(2))), s(St::Named(5)), s(St::Named(5)), s(St::Ld(0, Loc::Lit(0xFFFD)))], &[]), Spell::Dec));
    }
    // string literals containing a raw NUL character, with and without escapes next to it
    for t in ["a\u{0}b", "a\u{0}b\\n", "\u{0}\\\\", "\\\\\u{0}\\t\u{0}", "\u{0}", "x\\\"\u{0}\\\"y", "\\q\u{0}"] {
        v.push((true, p(vec![It::Stmt(Some(0), St::Strz(t.to_string())), s(St::Fill(0xBEEF))], &["msg"]), Spell::Hex));
    }
    // one string literal whose source text is around and beyond 65,535 bytes (a 16-bit span
    // length), made of multi-byte characters so that the program stays far below the memory limit
    for (ch, bytes) in [("é", 65_530usize), ("é", 65_534), ("é", 65_536), ("é", 65_538), ("中", 65_535), ("中", 65_538), ("中", 70_002), ("😀", 65_536)] {
        let n = (bytes - 2) / ch.len();
        let text: String = ch.repeat(n);
        v.push((true, p(vec![It::Stmt(Some(0), St::Strz(text)), s(St::Fill(0xBEEF)), It::Stmt(Some(1), St::Lea(0, Loc::Label(1)))], &["msg", "after"]), Spell::Hex));
    }
    // D7: 65,535 words exactly, and one more
    v.push((true, p(vec![s(St::Blkw(0xFFFF))], &[]), Spell::Hex));
    v.push((true, p(vec![s(St::Blkw(0xFFFE)), s(St::Named(5))], &[]), Spell::Hex));
    v.push((true, p(vec![s(St::Blkw(0xFFFF)), s(St::Named(5))], &[]), Spell::Hex));
    v.push((true, p(vec![s(St::Blkw(0xFFFE)), It::Stmt(Some(0), St::Br(7, Loc::Label(0)))], &["lbl"]), Spell::Hex));
    // labels: duplicate, undefined, differing in case only, on the referencing statement
    v.push((true, p(vec![It::Stmt(Some(0), St::Named(5)), It::Stmt(Some(0), St::Named(5))], &["a"]), Spell::Any));
    v.push((true, p(vec![s(St::Br(7, Loc::Label(0)))], &["nowhere"]), Spell::Any));
    v.push((true, p(vec![It::Stmt(Some(0), St::Named(5)), It::Stmt(Some(1), St::Br(7, Loc::Label(0)))], &["Loop", "loop"]), Spell::Any));
    v.push((true, p(vec![It::Stmt(Some(0), St::Br(7, Loc::Label(0)))], &["self"]), Spell::Any));
    // .orig twice
    v.push((true, p(vec![It::Orig(0x3000), It::Orig(0x3000)], &[]), Spell::Hex));
    v.push((true, p(vec![It::Orig(0x3000), s(St::Named(5)), It::Orig(0x4000)], &[]), Spell::Hex));
    // finding C01-1: comments between a data directive and its operand (the corpus is also run
    // under `layout_commented`)
    v.push((true, p(vec![s(St::Fill(0x2A)), s(St::Named(5))], &[]), Spell::Hex));
    v.push((true, p(vec![It::Stmt(Some(0), St::Strz("hi\\n".into())), s(St::Lea(0, Loc::Label(0)))], &["msg"]), Spell::Any));
    v.push((true, p(vec![s(St::Blkw(2)), It::Orig(0x4000), s(St::Fill(0xFFFF))], &[]), Spell::Dec));
    // stack mnemonics with the flag off
    v.push((false, p(vec![s(St::Push(0))], &[]), Spell::Any));
    v.push((false, p(vec![s(St::Rets)], &[]), Spell::Any));
    v.push((true, p(vec![It::Stmt(Some(0), St::Rets), s(St::Call(0))], &["f"]), Spell::Any));
    v
}

fn c01(cx: &mut Ctx) {
    let thorough = cx.o.thorough;
    // (a) every register triple of ADD / AND, every pair of NOT
    for (oi, orig) in origins(512).into_iter().enumerate() {
        for op in 0..2 {
            if let Some(mut rng) = cx.mine() {
                let mut v = Vec::with_capacity(512);
                for t in 0..512u32 {
                    let (d, a, b) = ((t >> 6) as u8 & 7, (t >> 3) as u8 & 7, t as u8 & 7);
                    v.push(It::Stmt(None, if op == 0 { St::AddReg(d, a, b) } else { St::AndReg(d, a, b) }));
                }
                cx.go(&mut rng, "sweep-reg3", false, AProg { items: with_orig(orig, v), names: vec![] }, Spell::Any, 1);
            }
        }
        if let Some(mut rng) = cx.mine() {
            let v = (0..64u8).map(|t| It::Stmt(None, St::Not(t >> 3, t & 7))).collect();
            cx.go(&mut rng, "sweep-not", false, AProg { items: with_orig(orig, v), names: vec![] }, Spell::Any, 1);
        }
        // (b) all 32 imm5 x register pairs (quick: 8 pairs per origin, rotating; thorough: all 64)
        let pairs: Vec<u8> = if thorough { (0..64).collect() } else { (0..8).map(|k| ((k * 9 + oi * 5) % 64) as u8).collect() };
        for op in 0..2 {
            if let Some(mut rng) = cx.mine() {
                let mut v = Vec::new();
                for &pr in &pairs {
                    for imm in -16i32..16 {
                        let w = imm as u16;
                        v.push(It::Stmt(None, if op == 0 { St::AddImm(pr >> 3, pr & 7, w) } else { St::AndImm(pr >> 3, pr & 7, w) }));
                    }
                }
                cx.go(&mut rng, "sweep-imm5", false, AProg { items: with_orig(orig, v), names: vec![] }, Spell::Any, 1);
            }
        }
        // (c) all 64 offset6 x register pairs
        for op in 0..2 {
            if let Some(mut rng) = cx.mine() {
                let mut v = Vec::new();
                for &pr in &pairs {
                    for off in -32i32..32 {
                        let w = off as u16;
                        v.push(It::Stmt(None, if op == 0 { St::Ldr(pr >> 3, pr & 7, w) } else { St::Str(pr >> 3, pr & 7, w) }));
                    }
                }
                cx.go(&mut rng, "sweep-off6", false, AProg { items: with_orig(orig, v), names: vec![] }, Spell::Any, 1);
            }
        }
        // (d) every PC-relative distance of every form, as a label: one label in the middle of
        // 2^n statements that all refer to it (before, after and ON the referencing statement)
        for form in 0..8usize {
            let bits = PC_BITS[form];
            let n = 1usize << bits;
            if let Some(mut rng) = cx.mine() {
                let p = n / 2;
                let v = (0..n).map(|i| It::Stmt(if i == p { Some(0) } else { None }, pc_form(form, i, Loc::Label(0)))).collect();
                let names = label_names(&mut rng, 1);
                cx.go(&mut rng, "sweep-pc-label", true, AProg { items: with_orig(orig, v), names }, Spell::Any, 1);
            }
            // … and as a literal
            if form != 7 {
                if let Some(mut rng) = cx.mine() {
                    let half = 1i32 << (bits - 1);
                    let v = (-half..half).map(|d| It::Stmt(None, pc_form(form, (d + half) as usize, Loc::Lit(d as u16)))).collect();
                    cx.go(&mut rng, "sweep-pc-literal", false, AProg { items: with_orig(orig, v), names: vec![] }, Spell::Any, 1);
                }
            }
        }
        // (e) all 256 trap vectors, the named traps, the register forms
        if let Some(mut rng) = cx.mine() {
            let mut v: Vec<It> = (0..256u16).map(|t| It::Stmt(None, St::Trap(t))).collect();
            for k in 0..8u8 {
                v.push(It::Stmt(None, St::Named(k)));
                v.push(It::Stmt(None, St::Jmp(k)));
                v.push(It::Stmt(None, St::Jsrr(k)));
                v.push(It::Stmt(None, St::Push(k)));
                v.push(It::Stmt(None, St::Pop(k)));
            }
            v.push(It::Stmt(None, St::Ret));
            v.push(It::Stmt(None, St::Rti));
            v.push(It::Stmt(None, St::Rets));
            cx.go(&mut rng, "sweep-trap-regs", true, AProg { items: with_orig(orig, v), names: vec![] }, Spell::Any, 1);
        }
        // (f) .fill words: boundaries always, every word in the thorough tier
        if let Some(mut rng) = cx.mine() {
            let mut ws: Vec<u16> = vec![0, 1, 2, 0x7F, 0x80, 0xFF, 0x100, 0x7FFE, 0x7FFF, 0x8000, 0x8001, 0xFFFE, 0xFFFF, 0xF025, 0x3000];
            for b in 0..16 {
                ws.push(1 << b);
                ws.push((1u16 << b).wrapping_sub(1));
                ws.push(!(1u16 << b));
            }
            for _ in 0..100 {
                ws.push(rng.u16());
            }
            let v = ws.into_iter().map(|w| It::Stmt(None, St::Fill(w))).collect();
            cx.go(&mut rng, "sweep-fill", false, AProg { items: with_orig(orig, v), names: vec![] }, Spell::Any, 1);
        }
        // (g) .blkw 0.. and .stringz with every escape, each followed by a labelled word that
        // an earlier LEA refers to (so the size of the block shows in the LEA's offset)
        if let Some(mut rng) = cx.mine() {
            let mut v = Vec::new();
            let mut id = 0usize;
            for k in 0..24u16 {
                v.push(It::Stmt(None, St::Lea((k % 8) as u8, Loc::Label(id))));
                v.push(It::Stmt(None, St::Blkw(k)));
                v.push(It::Stmt(Some(id), St::Fill(k)));
                id += 1;
            }
            let names = label_names(&mut rng, id);
            cx.go(&mut rng, "sweep-blkw", false, AProg { items: with_orig(orig, v), names }, Spell::Any, 1);
        }
        if let Some(mut rng) = cx.mine() {
            let mut v = Vec::new();
            let mut id = 0usize;
            for b in STRINGS {
                let body = b.to_string();
                v.push(It::Stmt(None, St::Lea((id % 8) as u8, Loc::Label(id))));
                v.push(It::Stmt(None, St::Strz(body)));
                v.push(It::Stmt(Some(id), St::Named(5)));
                id += 1;
            }
            let names = label_names(&mut rng, id);
            cx.go(&mut rng, "sweep-stringz", false, AProg { items: with_orig(orig, v), names }, Spell::Any, 1);
        }
    }
    if thorough {
        // every .fill word
        for chunk in 0..16u32 {
            if let Some(mut rng) = cx.mine() {
                let v = (0..4096u32).map(|k| It::Stmt(None, St::Fill((chunk * 4096 + k) as u16))).collect();
                cx.go(&mut rng, "sweep-fill-all", false, AProg { items: v, names: vec![] }, Spell::Any, 1);
            }
        }
    }
    // (g') keyword look-alike labels
    let la = lookalike_names();
    for (i, name) in la.iter().enumerate() {
        if let Some(mut rng) = cx.mine() {
            let items = vec![
                It::Stmt(Some(0), St::AddImm(0, 0, 1)),
                It::Stmt(None, pc_form(i % 7, 3, Loc::Label(0))),
                It::Stmt(Some(1), St::Named(5)),
            ];
            cx.go(&mut rng, "lookalike-label", true, AProg { items, names: vec![name.clone(), la[(i + 7) % la.len()].clone()] }, Spell::Any, 1);
        }
    }
    // (h) random programs, each under TWO random layouts
    let total = if thorough { 100_000 } else { 2_400 };
    for _ in 0..total {
        if let Some(mut rng) = cx.mine() {
            let n = match rng.below(10) {
                0 => 1 + rng.below(3) as usize,
                1..=5 => 1 + rng.below(30) as usize,
                6..=8 => 30 + rng.below(120) as usize,
                _ => 150 + rng.below(251) as usize,
            };
            let stack = rng.chance(3, 4);
            let p = gen_random(&mut rng, n, stack, false);
            cx.go(&mut rng, "random", stack, p, Spell::Any, 2);
        }
    }
}

fn c04(cx: &mut Ctx) {
    let thorough = cx.o.thorough;
    let spells = [Spell::Dec, Spell::DecU, Spell::Hex, Spell::NegHex];
    // (a) every form with a numeric operand x boundary operands x spellings
    //     forms: (name, bits, signed, constructor)
    let forms: Vec<(&'static str, u32, bool, Box<dyn Fn(u16) -> St>)> = vec![
        ("add", 5, true, Box::new(|w| St::AddImm(3, 5, w))),
        ("and", 5, true, Box::new(|w| St::AndImm(7, 7, w))),
        ("ldr", 6, true, Box::new(|w| St::Ldr(0, 1, w))),
        ("str", 6, true, Box::new(|w| St::Str(6, 7, w))),
        ("br", 9, true, Box::new(|w| St::Br(7, Loc::Lit(w)))),
        ("brn", 9, true, Box::new(|w| St::Br(4, Loc::Lit(w)))),
        ("brz", 9, true, Box::new(|w| St::Br(2, Loc::Lit(w)))),
        ("brp", 9, true, Box::new(|w| St::Br(1, Loc::Lit(w)))),
        ("brnz", 9, true, Box::new(|w| St::Br(6, Loc::Lit(w)))),
        ("brzp", 9, true, Box::new(|w| St::Br(3, Loc::Lit(w)))),
        ("brnp", 9, true, Box::new(|w| St::Br(5, Loc::Lit(w)))),
        ("ld", 9, true, Box::new(|w| St::Ld(1, Loc::Lit(w)))),
        ("ldi", 9, true, Box::new(|w| St::Ldi(2, Loc::Lit(w)))),
        ("lea", 9, true, Box::new(|w| St::Lea(3, Loc::Lit(w)))),
        ("st", 9, true, Box::new(|w| St::Sto(4, Loc::Lit(w)))),
        ("sti", 9, true, Box::new(|w| St::Sti(5, Loc::Lit(w)))),
        ("jsr", 11, true, Box::new(|w| St::Jsr(Loc::Lit(w)))),
        ("trap", 8, false, Box::new(|w| St::Trap(w))),
        ("fill", 16, false, Box::new(|w| St::Fill(w))),
    ];
    for (_, bits, signed, mk) in &forms {
        let (min, max): (i32, i32) = if *signed { (-(1 << (bits - 1)), (1 << (bits - 1)) - 1) } else { (0, (1i32 << bits) - 1) };
        let mut vals: Vec<u16> = [min - 1, min, -1, 0, max, max + 1, 0x7FFF, 0x8000, 0xFFFF, min + 1, max - 1, 1, min - 2, max + 2]
            .iter()
            .map(|v| *v as u16)
            .collect();
        vals.dedup();
        for w in vals {
            for sp in spells {
                for orig in [None, Some(0x8000u16)] {
                    if let Some(mut rng) = cx.mine() {
                        let p = one_stmt_prog(&mut rng, mk(w), orig);
                        cx.go(&mut rng, "operand-boundary", false, p, sp, 1);
                    }
                }
            }
        }
    }
    // (a') operands spelled with text that is not a 16-bit literal at all (I1): must be rejected,
    //      never wrapped into the field
    let templates = [
        "add r1 r2 {}", "and r1 r2 {}", "ldr r1 r2 {}", "str r1 r2 {}", "br {}", "brnz {}", "ld r1 {}", "ldi r1 {}",
        "lea r1 {}", "st r1 {}", "sti r1 {}", "jsr {}", "trap {}", ".fill {}", ".blkw {}", ".orig {}\nhalt",
    ];
    let bad = [
        "#65536", "#-32769", "#+65536", "#99999", "x10000", "0x10000", "X1FFFF", "x-8001", "x-FFFF", "x-FFF1", "0x-FFE1",
        "x-FFFE", "x-10000", "x-D000", "#-65535", "#-65536", "x-FFDB",
    ];
    for t in templates {
        for b in bad {
            if let Some(_rng) = cx.mine() {
                let text = format!("{}\nhalt\n", t.replace("{}", b));
                let (obs, kind) = observe(&mut cx.cap, false, &text, None);
                cx.sink.put(&format!("P01 0 {} = x", hex(text.as_bytes())), &obs);
                *cx.gens.entry("non-literal-operand".to_string()).or_insert(0) += 1;
                *cx.outcomes.entry(kind).or_insert(0) += 1;
                cx.texts += 1;
            }
        }
    }
    // (a'') directed raw texts: duplicate label definitions where a definition sits on a `.break` /
    //       `.orig` line (those lines take the label but no statement, so both definitions can carry
    //       the same line number). `true` = the specification rejects (a label is defined twice).
    {
        let raw: [(&str, bool); 13] = [
            ("loop .break\nloop add r0 r0 #1\nhalt\n", true),
            ("start .orig x3000\nstart halt\n", true),
            ("a .break\n.break\na halt\n", true),
            ("a .break\nb halt\na halt\n", true),
            ("a .orig x3000\nb .break\nb halt\n", true),
            ("x halt\nx .break\n", true),
            ("x halt\n.break\nx halt\n", true),
            ("x .break\nx .break\nhalt\n", true),
            ("x .orig x4000\nhalt\nx .fill #1\n", true),
            ("halt\nend .break\nend .break\n", true),
            ("a .break\nb halt\n", false),
            ("a .orig x3000\nb halt\nbr a\nbr b\n", false),
            ("halt\nend .break\n", false),
        ];
        for (text, reject) in raw {
            if let Some(_rng) = cx.mine() {
                let (obs, kind) = observe(&mut cx.cap, false, text, None);
                cx.sink.put(&format!("P01 0 {} = {}", hex(text.as_bytes()), if reject { "x" } else { "m" }), &obs);
                *cx.gens.entry("directed-raw-text".to_string()).or_insert(0) += 1;
                *cx.outcomes.entry(kind).or_insert(0) += 1;
                cx.texts += 1;
            }
        }
    }
    // .orig at every 4-bit boundary of its range; zero, once, twice (any position)
    for w in [0u16, 1, 0xF, 0x10, 0xFF, 0x100, 0xFFF, 0x1000, 0x2FFF, 0x3000, 0x7FFF, 0x8000, 0x8001, 0xFDFF, 0xFE00, 0xFFFE, 0xFFFF] {
        for sp in spells {
            if let Some(mut rng) = cx.mine() {
                let p = AProg { items: vec![It::Orig(w), It::Stmt(None, St::Named(5))], names: vec![] };
                cx.go(&mut rng, "orig-once", false, p, sp, 1);
            }
        }
        for pos in 0..4 {
            if let Some(mut rng) = cx.mine() {
                let h = || It::Stmt(None, St::Named(5));
                let second = It::Orig(if rng.chance(1, 2) { w } else { 0x3000 });
                let items = match pos {
                    0 => vec![It::Orig(w), second, h()],
                    1 => vec![It::Orig(w), h(), second, h()],
                    2 => vec![It::Orig(w), h(), h(), second],
                    _ => vec![h(), It::Orig(w), It::Brk, second],
                };
                cx.go(&mut rng, "orig-twice", false, AProg { items, names: vec![] }, Spell::Any, 1);
            }
        }
    }
    for pos in 0..3 {
        if let Some(mut rng) = cx.mine() {
            // a single .orig is accepted wherever it stands
            let h = || It::Stmt(None, St::Named(5));
            let items = match pos {
                0 => vec![h(), It::Orig(0x4000), h()],
                1 => vec![h(), h(), It::Orig(0x4000)],
                _ => vec![h(), h()],
            };
            cx.go(&mut rng, "orig-position", false, AProg { items, names: vec![] }, Spell::Any, 1);
        }
    }
    // trap 0 … 0x100 and beyond
    for t in (0..=0x101u32).chain([0x1FF, 0x200, 0x7FFF, 0x8000, 0xFF00, 0xFFFF]) {
        if let Some(mut rng) = cx.mine() {
            let p = one_stmt_prog(&mut rng, St::Trap(t as u16), None);
            cx.go(&mut rng, "trap-vector", false, p, Spell::Any, 1);
        }
    }
    // (b) label distances exactly +-2^(n-1), one short of it and one beyond, made with .blkw
    for form in 0..8usize {
        let half = 1i64 << (PC_BITS[form] - 1);
        // forward: stmt at 0, k words, label: distance k
        for k in [half - 2, half - 1, half, half + 1, 0, 1, 0x7FFE, 0x7FFF, 0x8000, 0xFFFC, 0xFFFD] {
            if k > 0x8000 && !(form == 0 || form == 6) {
                continue;
            }
            for orig in [None, Some(0xFE00u16)] {
                if let Some(mut rng) = cx.mine() {
                    let names = label_names(&mut rng, 1);
                    let items = with_orig(
                        orig,
                        vec![It::Stmt(None, pc_form(form, rng.below(56) as usize, Loc::Label(0))), It::Stmt(None, St::Blkw(k as u16)), It::Stmt(Some(0), St::Named(5))],
                    );
                    cx.go(&mut rng, "label-distance-fwd", true, AProg { items, names }, Spell::Any, 1);
                }
            }
        }
        // backward: label at 0, k words, stmt at k+1: distance -(k+2)
        for k in [half - 4, half - 3, half - 2, half - 1, half, 0, 0x7FFD, 0x7FFE, 0x7FFF, 0x8000] {
            if k < 0 || (k > 0x7FFF && !(form == 0 || form == 6)) {
                continue;
            }
            for orig in [None, Some(0x8000u16)] {
                if let Some(mut rng) = cx.mine() {
                    let names = label_names(&mut rng, 1);
                    let items = with_orig(
                        orig,
                        vec![It::Stmt(Some(0), St::Named(5)), It::Stmt(None, St::Blkw(k as u16)), It::Stmt(None, pc_form(form, rng.below(56) as usize, Loc::Label(0)))],
                    );
                    cx.go(&mut rng, "label-distance-bwd", true, AProg { items, names }, Spell::Any, 1);
                }
            }
        }
    }
    // (c) undefined / duplicate / case-differing labels
    let case_pairs: &[(&str, &str)] = &[("loop", "LOOP"), ("Loop", "loop"), ("a", "A"), ("x_1", "X_1"), ("data", "Data"), ("halt1", "HALT1"), ("r8", "R8"), ("xyz", "xYz")];
    for form in 0..8usize {
        for variant in 0..6 {
            for (a, b) in case_pairs.iter().take(if thorough { 8 } else { 3 }) {
                if let Some(mut rng) = cx.mine() {
                    let f = |l: usize| pc_form(form, 3, Loc::Label(l));
                    let h = |l: Option<usize>| It::Stmt(l, St::Named(5));
                    let (items, names): (Vec<It>, Vec<String>) = match variant {
                        // reference to a label that is never defined
                        0 => (vec![h(Some(0)), It::Stmt(None, f(1))], vec![a.to_string(), b.to_string()]),
                        // the same label defined twice (before / after the reference)
                        1 => (vec![h(Some(0)), It::Stmt(None, f(0)), h(Some(0))], vec![a.to_string()]),
                        2 => (vec![h(Some(0)), h(Some(0))], vec![a.to_string()]),
                        // two labels differing in case only: both defined, distinct
                        3 => (vec![h(Some(0)), h(None), h(Some(1)), It::Stmt(None, f(0)), It::Stmt(None, f(1))], vec![a.to_string(), b.to_string()]),
                        // defined once, used before and after
                        4 => (vec![It::Stmt(None, f(0)), h(Some(0)), It::Stmt(None, f(0))], vec![b.to_string()]),
                        // only the case variant is defined
                        _ => (vec![h(Some(1)), It::Stmt(None, f(0))], vec![a.to_string(), b.to_string()]),
                    };
                    cx.go(&mut rng, "labels", true, AProg { items, names }, Spell::Any, 1);
                }
            }
        }
    }
    // (c') keyword look-alike labels (`xout`, `Xret`, `0xhalt`, `_add`, `halt1`, …): defined
    //      before a statement, referenced, and as an unreferenced label in front of a statement
    let la = lookalike_names();
    for (i, name) in la.iter().enumerate() {
        for stack in [false, true] {
            if let Some(mut rng) = cx.mine() {
                let form = i % 8;
                let form = if form == 7 && !stack { 0 } else { form };
                let items = vec![
                    It::Stmt(Some(0), St::AddImm(0, 0, 1)),
                    It::Stmt(None, pc_form(form, 3, Loc::Label(0))),
                    It::Stmt(Some(1), St::Named(5)),
                ];
                cx.go(&mut rng, "lookalike-label", stack, AProg { items, names: vec![name.clone(), la[(i + 7) % la.len()].clone()] }, Spell::Any, 1);
            }
        }
    }
    // stack mnemonics x flag
    for stack in [false, true] {
        for k in 0..4 {
            if let Some(mut rng) = cx.mine() {
                let items = match k {
                    0 => vec![It::Stmt(None, St::Push(3))],
                    1 => vec![It::Stmt(None, St::Pop(4))],
                    2 => vec![It::Stmt(Some(0), St::Rets), It::Stmt(None, St::Call(0))],
                    _ => vec![It::Stmt(None, St::Named(5)), It::Stmt(None, St::Rets)],
                };
                cx.go(&mut rng, "stack-flag", stack, AProg { items, names: vec!["sub_1".into()] }, Spell::Any, 1);
            }
        }
    }
    // (d) random programs with out-of-range operands, undefined / duplicate labels, repeated .orig
    let total = if thorough { 400_000 } else { 12_000 };
    for _ in 0..total {
        if let Some(mut rng) = cx.mine() {
            let n = match rng.below(10) {
                0..=5 => 1 + rng.below(6) as usize,
                6..=8 => 4 + rng.below(30) as usize,
                _ => 30 + rng.below(100) as usize,
            };
            let stack = rng.chance(3, 4);
            let wild = rng.chance(3, 4);
            let p = gen_random(&mut rng, n, stack || wild, wild);
            let layouts = if rng.chance(1, 3) { 2 } else { 1 };
            cx.go(&mut rng, if wild { "random-wild" } else { "random" }, stack, p, Spell::Any, layouts);
        }
    }
}

pub fn parse_request(line: &str) -> Option<(bool, String, Option<String>)> {
    let f: Vec<&str> = line.split_whitespace().collect();
    if f.len() < 4 || f[0] != "P01" {
        return None;
    }
    let t1 = String::from_utf8(unhex(f[2])?).ok()?;
    let t2 = if f[3] == "=" { None } else { Some(String::from_utf8(unhex(f[3])?).ok()?) };
    Some((f[1] != "0", t1, t2))
}

pub fn run(o: &crate::Opts) {
    let mut cx = Ctx {
        o,
        cap: Capture::install(),
        sink: crate::Sink::new(o),
        idx: 0,
        gens: BTreeMap::new(),
        outcomes: BTreeMap::new(),
        stmts: 0,
        texts: 0,
        samples: Vec::new(),
        max_ms: 0,
    };
    if let Some(path) = &o.replay {
        for line in std::fs::read_to_string(path).unwrap().lines() {
            match parse_request(line) {
                Some((stack, t1, t2)) => {
                    let (obs, _) = observe(&mut cx.cap, stack, &t1, t2.as_deref());
                    cx.sink.put(line, &obs);
                }
                None => cx.sink.put(line, "bad-request"),
            }
        }
        cx.sink.finish(o, "{}");
        return;
    }
    let mut corpus_n = 0;
    if o.shard == 0 {
        for (stack, prog, mode) in corpus() {
            let mut rng = Rng::new(o.seed ^ 0xC0 ^ corpus_n);
            let text1 = prog.render(&mut rng, mode, true);
            let text2 = Some(prog.render(&mut rng, Spell::Any, false));
            let commented = layout_commented(&prog.pieces(&mut rng, mode));
            cx.run(Case { gen: "corpus", stack, prog: prog.clone(), text1, text2 });
            cx.run(Case { gen: "corpus", stack, prog, text1: commented, text2: None });
            corpus_n += 2;
        }
    }
    if o.prop == "C01" {
        c01(&mut cx);
    } else {
        c04(&mut cx);
    }
    let show = |m: &BTreeMap<String, u64>| m.iter().map(|(k, v)| format!("\"{}\":{}", json_escape(k), v)).collect::<Vec<_>>().join(",");
    let stats = format!(
        "{{\"cases\":{},\"corpus\":{},\"statements\":{},\"texts_assembled\":{},\"generators\":{{{}}},\"outcomes\":{{{}}},\"exhaustive_sweeps\":{},\"max_case_ms\":{},\"samples\":[{}]}}",
        cx.sink.n,
        corpus_n,
        cx.stmts,
        cx.texts,
        show(&cx.gens),
        show(&cx.outcomes),
        if o.prop == "C01" { 1 } else { 0 },
        cx.max_ms,
        cx.samples.join(",")
    );
    cx.sink.finish(o, &stats);
}
