//! Structured LC-3 program generator (word level, independent of lace's assembler):
//! counted loops, nested subroutines in both calling conventions, loads/stores, traps,
//! self-modifying stores, and the various ways a program can end.
use crate::prng::Rng;

#[derive(Clone, Debug)]
pub enum Item {
    W(u16),
    /// opcode bits (everything except the PC-relative field), field width, label
    Rel(u16, u32, usize),
    Label(usize),
}

pub struct Builder {
    pub items: Vec<Item>,
    next_label: usize,
}

impl Builder {
    pub fn new() -> Self {
        Builder { items: Vec::new(), next_label: 0 }
    }
    pub fn label(&mut self) -> usize {
        self.next_label += 1;
        self.next_label - 1
    }
    pub fn place(&mut self, l: usize) {
        self.items.push(Item::Label(l));
    }
    pub fn w(&mut self, w: u16) {
        self.items.push(Item::W(w));
    }
    pub fn rel(&mut self, bits: u16, width: u32, l: usize) {
        self.items.push(Item::Rel(bits, width, l));
    }
    /// Resolve labels; `None` if a distance does not fit its field.
    pub fn assemble(&self) -> Option<Vec<u16>> {
        let mut pos = vec![0usize; self.next_label];
        let mut n = 0usize;
        for it in &self.items {
            match it {
                Item::Label(l) => pos[*l] = n,
                _ => n += 1,
            }
        }
        let mut out = Vec::with_capacity(n);
        for it in &self.items {
            match it {
                Item::Label(_) => {}
                Item::W(w) => out.push(*w),
                Item::Rel(bits, width, l) => {
                    let here = out.len() as i64 + 1;
                    let d = pos[*l] as i64 - here;
                    let lim = 1i64 << (width - 1);
                    if d < -lim || d >= lim {
                        return None;
                    }
                    out.push(bits | ((d as u16) & ((1u16 << width) - 1)));
                }
            }
        }
        Some(out)
    }
}

pub fn add_imm(dr: u16, sr: u16, imm: i16) -> u16 {
    0x1000 | dr << 9 | sr << 6 | 0x20 | (imm as u16 & 0x1F)
}
pub fn and_imm(dr: u16, sr: u16, imm: i16) -> u16 {
    0x5000 | dr << 9 | sr << 6 | 0x20 | (imm as u16 & 0x1F)
}

#[derive(Clone, Debug)]
pub struct Prog {
    pub orig: u16,
    pub words: Vec<u16>,
    pub inp: Vec<u8>,
    pub stack: bool,
    pub minimal: bool,
    pub kind: &'static str,
}

fn alu(rng: &mut Rng, b: &mut Builder) {
    let dr = rng.below(4) as u16; // r0..r3 scratch
    let sr = rng.below(6) as u16;
    match rng.below(5) {
        0 => b.w(0x1000 | dr << 9 | sr << 6 | rng.below(6) as u16),
        1 => b.w(add_imm(dr, sr, rng.range(-16, 15) as i16)),
        2 => b.w(0x5000 | dr << 9 | sr << 6 | rng.below(6) as u16),
        3 => b.w(and_imm(dr, sr, rng.range(-16, 15) as i16)),
        _ => b.w(0x9000 | dr << 9 | sr << 6 | 0x3F),
    }
}

struct Ctx {
    data: Vec<(usize, Vec<u16>)>, // label, words
    subs: Vec<usize>,             // labels of subroutines (JSR/RET convention)
    ssubs: Vec<usize>,            // labels of subroutines (CALL/RETS convention)
    stack: bool,
    minimal: bool,
    reads: usize,
}

fn stmt(rng: &mut Rng, b: &mut Builder, cx: &mut Ctx, depth: u32) {
    match rng.below(16) {
        0..=3 => alu(rng, b),
        4 if depth < 2 => {
            // counted loop on r4 (outer) / r5 (inner)
            let rc = 4 + depth as u16;
            let k = rng.range(1, 6) as i16;
            b.w(and_imm(rc, rc, 0));
            b.w(add_imm(rc, rc, k));
            let l = b.label();
            b.place(l);
            for _ in 0..rng.range(1, 3) {
                stmt(rng, b, cx, depth + 1);
            }
            b.w(add_imm(rc, rc, -1));
            b.rel(0x0200, 9, l); // BRp
        }
        5 => {
            // string output
            let l = b.label();
            let packed = rng.chance(1, 3);
            let mut s: Vec<u16> = Vec::new();
            for _ in 0..rng.below(7) {
                let c = if rng.chance(1, 12) { 0x1b } else { 0x20 + rng.below(0x5f) as u16 };
                if packed {
                    let hi = if rng.chance(1, 5) { 0 } else { 0x21 + rng.below(0x5e) as u16 };
                    s.push(hi << 8 | c);
                    if hi == 0 {
                        break;
                    }
                } else {
                    s.push(c);
                }
            }
            s.push(0);
            cx.data.push((l, s));
            b.rel(0xE000, 9, l); // LEA R0
            b.w(if packed { 0xF024 } else { 0xF022 });
        }
        6 => {
            // OUT / PUTN / REG of whatever is in R0
            match rng.below(3) {
                0 => b.w(0xF021),
                1 => b.w(0xF026),
                _ => b.w(0xF027),
            }
        }
        7 => {
            cx.reads += 1;
            b.w(if rng.chance(1, 2) { 0xF020 } else { 0xF023 });
        }
        8 | 9 => {
            // load / store through a data label
            let l = b.label();
            cx.data.push((l, vec![rng.u16()]));
            let r = rng.below(4) as u16;
            match rng.below(4) {
                0 => b.rel(0x2000 | r << 9, 9, l), // LD
                1 => b.rel(0x3000 | r << 9, 9, l), // ST
                2 => b.rel(0xE000 | r << 9, 9, l), // LEA
                _ => {
                    // LEA r3, l ; LDR/STR r, r3, #0
                    b.rel(0xE000 | 3 << 9, 9, l);
                    let op = if rng.chance(1, 2) { 0x6000 } else { 0x7000 };
                    b.w(op | r << 9 | 3 << 6);
                }
            }
        }
        10 => {
            // LDI / STI through a pointer cell that points at another data cell
            let target = b.label();
            let ptr = b.label();
            cx.data.push((target, vec![rng.u16()]));
            cx.data.push((ptr, vec![0xFFFF])); // patched below: pointer to target (absolute)
            let r = rng.below(4) as u16;
            // LEA r3,target ; ST r3,ptr ; LDI/STI r,ptr
            b.rel(0xE000 | 3 << 9, 9, target);
            b.rel(0x3000 | 3 << 9, 9, ptr);
            b.rel(if rng.chance(1, 2) { 0xA000 } else { 0xB000 } | r << 9, 9, ptr);
        }
        11 if !cx.subs.is_empty() => {
            let s = *rng.pick(&cx.subs);
            b.rel(0x4800, 11, s); // JSR
        }
        12 if cx.stack && !cx.ssubs.is_empty() => {
            let s = *rng.pick(&cx.ssubs);
            b.rel(0xDC00, 10, s); // CALL
        }
        13 if cx.stack => {
            let r = rng.below(6) as u16;
            b.w(0xD400 | r << 6); // PUSH
            alu(rng, b);
            b.w(0xD000 | r << 6); // POP
        }
        14 => {
            // self-modifying: overwrite the next-but-one instruction with an ALU word
            let src = b.label();
            let slot = b.label();
            cx.data.push((src, vec![add_imm(rng.below(4) as u16, rng.below(4) as u16, rng.range(-16, 15) as i16)]));
            b.rel(0x2000 | 3 << 9, 9, src); // LD r3, src
            b.rel(0x3000 | 3 << 9, 9, slot); // ST r3, slot
            b.place(slot);
            b.w(0x0000); // will be overwritten before it is reached
        }
        _ => alu(rng, b),
    }
}

/// A program that terminates by construction (except for `kind == "spin"`).
pub fn gen_structured(rng: &mut Rng) -> Prog {
    let stack = rng.chance(2, 3);
    let minimal = rng.chance(3, 4);
    let mut b = Builder::new();
    let mut cx = Ctx { data: Vec::new(), subs: Vec::new(), ssubs: Vec::new(), stack, minimal, reads: 0 };
    let nsubs = rng.below(3);
    let nssubs = if stack { rng.below(3) } else { 0 };
    let sub_labels: Vec<usize> = (0..nsubs).map(|_| b.label()).collect();
    let ssub_labels: Vec<usize> = (0..nssubs).map(|_| b.label()).collect();
    // main may call any subroutine
    cx.subs = sub_labels.clone();
    cx.ssubs = ssub_labels.clone();
    for _ in 0..rng.range(2, 10) {
        stmt(rng, &mut b, &mut cx, 0);
    }
    let ending = rng.below(10);
    let end_data = b.label();
    let kind: &'static str = match ending {
        0..=3 => {
            b.w(0xF025);
            "halt"
        }
        4 => "fall-off-end",
        5 => {
            cx.data.push((end_data, vec![0xFFFF]));
            b.rel(0x2000 | 3 << 9, 9, end_data);
            b.w(0xC0C0); // JMP r3
            "jump-ffff"
        }
        6 => {
            cx.data.push((end_data, vec![0xFE00 + rng.below(0x1FF) as u16]));
            b.rel(0x2000 | 3 << 9, 9, end_data);
            b.w(0xC0C0);
            "jump-above"
        }
        7 => {
            cx.data.push((end_data, vec![0xBEEF])); // patched to orig-1 by caller
            b.rel(0x2000 | 3 << 9, 9, end_data);
            b.w(0xC0C0);
            "jump-below"
        }
        8 => {
            b.w(0xF000 | *rng.pick(&[0x00u16, 0x1F, 0x28, 0x80, 0xFF]));
            "bad-trap"
        }
        _ => {
            b.w(0x8000);
            "rti"
        }
    };
    // the code must not run into the subroutines or data: every ending above stops or jumps,
    // except fall-off-end, which needs the subroutines out of the way — give it a HALT barrier
    if kind == "fall-off-end" && (nsubs + nssubs > 0 || !cx.data.is_empty()) {
        // jump over subroutines and data to the very end
        let the_end = b.label();
        b.rel(0x0E00, 9, the_end); // BRnzp end
        emit_subs(rng, &mut b, &mut cx, &sub_labels, &ssub_labels);
        emit_data(&mut b, &cx);
        b.place(the_end);
    } else {
        emit_subs(rng, &mut b, &mut cx, &sub_labels, &ssub_labels);
        emit_data(&mut b, &cx);
    }
    let words = b.assemble().unwrap_or_else(|| vec![0xF025]);
    let orig = *rng.pick(&[0x3000u16, 0x3000, 0x0200, 0x0001, 0x8000, 0x7FF0, 0xF000]);
    let mut words = words;
    if kind == "jump-below" {
        // last data word holds the target
        let t = orig.wrapping_sub(1 + rng.below(3) as u16);
        for w in words.iter_mut().rev() {
            if *w == 0xBEEF {
                *w = t;
                break;
            }
        }
    }
    let mut inp = Vec::new();
    let nin = if rng.chance(1, 6) { cx.reads.saturating_sub(1) } else { cx.reads * 6 + rng.below(3) as usize };
    for _ in 0..nin {
        inp.push(match rng.below(6) {
            0 => 0x80 + rng.below(0x80) as u8,
            1 => rng.below(0x20) as u8,
            _ => 0x20 + rng.below(0x5f) as u8,
        });
    }
    Prog { orig, words, inp, stack, minimal, kind }
}

fn emit_subs(rng: &mut Rng, b: &mut Builder, cx: &mut Ctx, subs: &[usize], ssubs: &[usize]) {
    // JSR/RET subroutines: sub i may call sub j>i after saving R7 in a data cell
    for (i, l) in subs.iter().enumerate() {
        b.place(*l);
        let later: Vec<usize> = subs[i + 1..].to_vec();
        cx.subs = Vec::new();
        cx.ssubs = Vec::new();
        for _ in 0..rng.range(1, 3) {
            stmt(rng, b, cx, 1);
        }
        if !later.is_empty() && rng.chance(1, 2) {
            let save = b.label();
            cx.data.push((save, vec![0]));
            b.rel(0x3000 | 7 << 9, 9, save); // ST R7, save
            b.rel(0x4800, 11, *rng.pick(&later));
            b.rel(0x2000 | 7 << 9, 9, save); // LD R7, save
        }
        b.w(0xC1C0); // RET
    }
    for (i, l) in ssubs.iter().enumerate() {
        b.place(*l);
        let later: Vec<usize> = ssubs[i + 1..].to_vec();
        cx.subs = Vec::new();
        cx.ssubs = Vec::new();
        for _ in 0..rng.range(1, 3) {
            stmt(rng, b, cx, 1);
        }
        if !later.is_empty() && rng.chance(1, 2) {
            b.rel(0xDC00, 10, *rng.pick(&later)); // CALL (return address is on the stack)
        }
        b.w(0xD800); // RETS
    }
}

fn emit_data(b: &mut Builder, cx: &Ctx) {
    for (l, ws) in &cx.data {
        b.place(*l);
        for w in ws {
            b.w(*w);
        }
    }
}

/// Arbitrary word image: mostly crashes, spins or leaves user space quickly.
pub fn gen_random_image(rng: &mut Rng) -> Prog {
    let n = rng.range(0, 24) as usize;
    let mut words = Vec::new();
    for _ in 0..n {
        words.push(match rng.below(6) {
            0 => 0xF020 + rng.below(8) as u16,
            1 => rng.u16() & 0x0FFF | 0x1000,
            2 => rng.u16() & 0x01FF | (rng.below(8) as u16) << 9, // BR
            _ => rng.u16(),
        });
    }
    let orig = match rng.below(8) {
        0 => 0u16,
        1 => 0xFDFF,
        2 => 0xFE00u16.wrapping_sub(n as u16),
        3 => 0xFFFFu16.wrapping_sub(n as u16),          // image + sentinel end exactly at the top
        4 => 0xFFFFu16.wrapping_sub(n as u16).wrapping_add(1), // one too high
        5 => 0xFFFF,
        _ => rng.u16(),
    };
    let mut inp = Vec::new();
    for _ in 0..rng.below(5) {
        inp.push(rng.next() as u8);
    }
    Prog { orig, words, inp, stack: rng.chance(1, 2), minimal: rng.chance(3, 4), kind: "random-image" }
}
