//! File-descriptor level capture of stdout / stderr and scripted stdin.
//!
//! What is observed is what a user's terminal would receive, not what a hook thinks was
//! printed.  Redirection is process-global, so parallelism is by worker processes.
use std::io::{Read, Write};

extern "C" {
    fn dup(fd: i32) -> i32;
    fn dup2(old: i32, new: i32) -> i32;
    fn memfd_create(name: *const u8, flags: u32) -> i32;
    fn lseek(fd: i32, off: i64, whence: i32) -> i64;
    fn pread(fd: i32, buf: *mut u8, n: usize, off: i64) -> isize;
    fn write(fd: i32, buf: *const u8, n: usize) -> isize;
    fn ftruncate(fd: i32, len: i64) -> i32;
    fn close(fd: i32) -> i32;
}

pub struct Capture {
    out_fd: i32,
    err_fd: i32,
    out_pos: i64,
    err_pos: i64,
    /// duplicate of the original stdout (for harness messages)
    pub real_out: i32,
    stdin_len: usize,
}

fn memfd(name: &str) -> i32 {
    let mut n = name.as_bytes().to_vec();
    n.push(0);
    let fd = unsafe { memfd_create(n.as_ptr(), 0) };
    assert!(fd >= 0, "memfd_create failed");
    fd
}

impl Capture {
    /// Redirect fds 0, 1, 2 of this process for its whole lifetime.
    pub fn install() -> Capture {
        unsafe {
            let real_out = dup(1);
            let out_fd = memfd("lvh-out");
            let err_fd = memfd("lvh-err");
            assert!(dup2(out_fd, 1) >= 0);
            assert!(dup2(err_fd, 2) >= 0);
            let empty = memfd("lvh-in");
            assert!(dup2(empty, 0) >= 0);
            close(empty);
            Capture { out_fd, err_fd, out_pos: 0, err_pos: 0, real_out, stdin_len: 0 }
        }
    }

    /// Provide `bytes` as the process' standard input (fresh file, offset 0).
    pub fn set_stdin(&mut self, bytes: &[u8]) {
        unsafe {
            let fd = memfd("lvh-in");
            let mut off = 0;
            while off < bytes.len() {
                let n = write(fd, bytes[off..].as_ptr(), bytes.len() - off);
                assert!(n > 0);
                off += n as usize;
            }
            lseek(fd, 0, 0);
            assert!(dup2(fd, 0) >= 0);
            close(fd);
        }
        self.stdin_len = bytes.len();
    }

    /// Drain Rust's global stdin buffer and the file behind it; returns how many bytes of the
    /// scripted input were left unread by the code under test.
    pub fn drain_stdin(&mut self) -> usize {
        let mut sink = Vec::new();
        let _ = std::io::stdin().lock().read_to_end(&mut sink);
        self.stdin_len = 0;
        sink.len()
    }

    /// Start of a case: remember the current end of the captured streams.
    pub fn begin(&mut self) {
        let _ = std::io::stdout().flush();
        unsafe {
            if self.out_pos > (1 << 22) {
                ftruncate(self.out_fd, 0);
                lseek(self.out_fd, 0, 0);
            }
            if self.err_pos > (1 << 22) {
                ftruncate(self.err_fd, 0);
                lseek(self.err_fd, 0, 0);
            }
            self.out_pos = lseek(self.out_fd, 0, 1);
            self.err_pos = lseek(self.err_fd, 0, 1);
        }
    }

    fn slice(fd: i32, from: i64) -> Vec<u8> {
        unsafe {
            let end = lseek(fd, 0, 1);
            let mut buf = vec![0u8; (end - from).max(0) as usize];
            let mut off = 0usize;
            while off < buf.len() {
                let n = pread(fd, buf[off..].as_mut_ptr(), buf.len() - off, from + off as i64);
                if n <= 0 {
                    break;
                }
                off += n as usize;
            }
            buf.truncate(off);
            buf
        }
    }

    /// End of a case: bytes written to stdout and stderr since `begin`.
    pub fn end(&mut self) -> (Vec<u8>, Vec<u8>) {
        let _ = std::io::stdout().flush();
        let out = Self::slice(self.out_fd, self.out_pos);
        let err = Self::slice(self.err_fd, self.err_pos);
        (out, err)
    }

    /// Message to the real stdout of the harness.
    pub fn say(&self, msg: &str) {
        unsafe {
            write(self.real_out, msg.as_ptr(), msg.len());
        }
    }
}

pub fn hex(bytes: &[u8]) -> String {
    if bytes.is_empty() {
        return "-".to_string();
    }
    let mut s = String::with_capacity(bytes.len() * 2);
    for b in bytes {
        s.push_str(&format!("{:02x}", b));
    }
    s
}

pub fn unhex(s: &str) -> Option<Vec<u8>> {
    if s == "-" {
        return Some(Vec::new());
    }
    if s.len() % 2 != 0 {
        return None;
    }
    (0..s.len() / 2).map(|i| u8::from_str_radix(&s[2 * i..2 * i + 2], 16).ok()).collect()
}
