//! Debugger sessions (C09–C13, C16): a program (given as `.orig`/`.fill` source with labels and
//! `.break` directives) is run under the real debugger with a command script delivered through
//! `--command`; the same session is run on the Lean model.
use crate::cap::{hex, unhex, Capture};
use crate::progs::{gen_structured, Prog};
use crate::prng::Rng;
use crate::run::fnv;
use crate::vm::{guarded, mem_diff, set_features, show_regs, Outcome};
use lace::verif::Event;
use lace::RunEnvironment;

#[derive(Clone, Debug, PartialEq)]
pub enum Loc {
    Addr(u16),
    Pc(i32),
    Label(String, i32),
}

#[derive(Clone, Debug, PartialEq)]
pub enum Cmd {
    Help,
    /// `help` without the echo markers (only produced when parsing a request back)
    HelpRaw,
    StepOver,
    StepInto(u16),
    StepOut,
    Continue,
    Registers,
    PrintReg(u8),
    PrintMem(Loc),
    MoveReg(u8, u16),
    MoveMem(Loc, u16),
    Goto(Loc),
    Assembly(Loc),
    /// `assembly` bracketed by `echo @a` / `echo @/a`, so that the printed statement text (which
    /// may contain line breaks) is observed byte for byte
    AsmB(Loc),
    /// `eval`, bracketed by `echo @e` / `echo @/e` (a printed diagnostic is collapsed to `<evalmsg>`)
    Eval(String),
    /// `eval` without the markers (only produced when parsing a request back)
    EvalRaw(String),
    Echo(String),
    Reset,
    Quit,
    Exit,
    BreakList,
    /// `break list` bracketed by `echo @b` / `echo @/b`: in the normal output mode what it prints
    /// (the breakpoint table) is cut out of stderr between the markers (`break_tables`)
    BreakListB,
    BreakAdd(Loc),
    BreakRemove(Loc),
}

impl Loc {
    pub fn text(&self) -> String {
        match self {
            Loc::Addr(a) => format!("x{:04x}", a),
            Loc::Pc(o) => format!("^{}", o),
            Loc::Label(n, o) => {
                if *o == 0 {
                    n.clone()
                } else if *o > 0 {
                    format!("{}+{}", n, o)
                } else {
                    format!("{}{}", n, o)
                }
            }
        }
    }
    pub fn token(&self) -> String {
        match self {
            Loc::Addr(a) => format!("@{:04x}", a),
            Loc::Pc(o) => format!("^{}", o),
            Loc::Label(n, o) => format!("L{}/{}", hex(n.as_bytes()), o),
        }
    }
    fn parse(t: &str) -> Option<Loc> {
        if let Some(h) = t.strip_prefix('@') {
            Some(Loc::Addr(u16::from_str_radix(h, 16).ok()?))
        } else if let Some(o) = t.strip_prefix('^') {
            Some(Loc::Pc(o.parse().ok()?))
        } else if let Some(r) = t.strip_prefix('L') {
            let (n, o) = r.split_once('/')?;
            Some(Loc::Label(String::from_utf8(unhex(n)?).ok()?, o.parse().ok()?))
        } else {
            None
        }
    }
}

impl Cmd {
    /// Whether the command lets the program execute instructions.
    pub fn resumes(&self) -> bool {
        matches!(self, Cmd::StepOver | Cmd::StepInto(_) | Cmd::StepOut | Cmd::Continue)
    }

    /// What is typed at the debugger prompt.
    pub fn text(&self) -> String {
        match self {
            Cmd::Help => "echo @h\nhelp\necho @/h".into(),
            Cmd::HelpRaw => "help".into(),
            Cmd::StepOver => "step".into(),
            Cmd::StepInto(k) => format!("step into {}", k),
            Cmd::StepOut => "step out".into(),
            Cmd::Continue => "continue".into(),
            Cmd::Registers => "registers".into(),
            Cmd::PrintReg(r) => format!("print r{}", r),
            Cmd::PrintMem(l) => format!("print {}", l.text()),
            Cmd::MoveReg(r, v) => format!("move r{} x{:04x}", r, v),
            Cmd::MoveMem(l, v) => format!("move {} x{:04x}", l.text(), v),
            Cmd::Goto(l) => format!("goto {}", l.text()),
            Cmd::Assembly(l) => format!("assembly {}", l.text()),
            Cmd::AsmB(l) => format!("echo @a\nassembly {}\necho @/a", l.text()),
            Cmd::Eval(s) => format!("echo @e\neval {}\necho @/e", s),
            Cmd::EvalRaw(s) => format!("eval {}", s),
            Cmd::Echo(s) => format!("echo {}", s),
            Cmd::Reset => "reset".into(),
            Cmd::Quit => "quit".into(),
            Cmd::Exit => "exit".into(),
            Cmd::BreakList => "break list".into(),
            Cmd::BreakListB => "echo @b\nbreak list\necho @/b".into(),
            Cmd::BreakAdd(l) => format!("break add {}", l.text()),
            Cmd::BreakRemove(l) => format!("break remove {}", l.text()),
        }
    }
    /// Structured form for the model driver.
    pub fn token(&self) -> String {
        match self {
            Cmd::Help => format!("e:{} h e:{}", hex(b"@h"), hex(b"@/h")),
            Cmd::HelpRaw => "h".into(),
            Cmd::StepOver => "so".into(),
            Cmd::StepInto(k) => format!("si:{}", (*k).max(1)),
            Cmd::StepOut => "sout".into(),
            Cmd::Continue => "c".into(),
            Cmd::Registers => "regs".into(),
            Cmd::PrintReg(r) => format!("p:r{}", r),
            Cmd::PrintMem(l) => format!("p:{}", l.token()),
            Cmd::MoveReg(r, v) => format!("mv:r{}:{:04x}", r, v),
            Cmd::MoveMem(l, v) => format!("mv:{}:{:04x}", l.token(), v),
            Cmd::Goto(l) => format!("g:{}", l.token()),
            Cmd::Assembly(l) => format!("a:{}", l.token()),
            Cmd::AsmB(l) => format!("e:{} a:{} e:{}", hex(b"@a"), l.token(), hex(b"@/a")),
            Cmd::Eval(s) => format!("e:{} ev:{} e:{}", hex(b"@e"), hex(s.as_bytes()), hex(b"@/e")),
            Cmd::EvalRaw(s) => format!("ev:{}", hex(s.as_bytes())),
            Cmd::Echo(s) => format!("e:{}", hex(s.as_bytes())),
            Cmd::Reset => "z".into(),
            Cmd::Quit => "q".into(),
            Cmd::Exit => "x".into(),
            Cmd::BreakList => "bl".into(),
            Cmd::BreakListB => format!("e:{} bl e:{}", hex(b"@b"), hex(b"@/b")),
            Cmd::BreakAdd(l) => format!("ba:{}", l.token()),
            Cmd::BreakRemove(l) => format!("br:{}", l.token()),
        }
    }
    fn parse(t: &str) -> Option<Cmd> {
        let p: Vec<&str> = t.split(':').collect();
        Some(match p[0] {
            "h" => Cmd::HelpRaw,
            "so" => Cmd::StepOver,
            "si" => Cmd::StepInto(p.get(1)?.parse().ok()?),
            "sout" => Cmd::StepOut,
            "c" => Cmd::Continue,
            "regs" => Cmd::Registers,
            "p" => {
                if let Some(r) = p.get(1)?.strip_prefix('r') {
                    Cmd::PrintReg(r.parse().ok()?)
                } else {
                    Cmd::PrintMem(Loc::parse(p[1])?)
                }
            }
            "mv" => {
                let v = u16::from_str_radix(p.get(2)?, 16).ok()?;
                if let Some(r) = p.get(1)?.strip_prefix('r') {
                    Cmd::MoveReg(r.parse().ok()?, v)
                } else {
                    Cmd::MoveMem(Loc::parse(p[1])?, v)
                }
            }
            "g" => Cmd::Goto(Loc::parse(p.get(1)?)?),
            "a" => Cmd::Assembly(Loc::parse(p.get(1)?)?),
            "ev" => Cmd::EvalRaw(String::from_utf8(unhex(p.get(1)?)?).ok()?),
            "e" => Cmd::Echo(String::from_utf8(unhex(p.get(1)?)?).ok()?),
            "z" => Cmd::Reset,
            "q" => Cmd::Quit,
            "x" => Cmd::Exit,
            "bl" => Cmd::BreakList,
            "ba" => Cmd::BreakAdd(Loc::parse(p.get(1)?)?),
            "br" => Cmd::BreakRemove(Loc::parse(p.get(1)?)?),
            _ => return None,
        })
    }
}

#[derive(Clone, Debug)]
pub struct DbgCase {
    pub tag: &'static str,
    pub stack: bool,
    pub fuel: u64,
    pub inp: Vec<u8>,
    pub orig: u16,
    pub words: Vec<u16>,
    /// statement indices (0..=n) before which a `.break` is written
    pub breaks: Vec<usize>,
    /// label name → index of the statement it marks
    pub labels: Vec<(String, usize)>,
    pub cmds: Vec<Cmd>,
    /// run in the normal (non `--minimal`) output mode: what the debugger prints is then not
    /// compared (the model covers minimal-mode output only), everything else is
    pub nm: bool,
}

impl DbgCase {
    pub fn source(&self) -> String {
        let mut s = format!(".orig x{:04X}\n", self.orig);
        for (i, w) in self.words.iter().enumerate() {
            if self.breaks.contains(&i) {
                s.push_str(".break\n");
            }
            for (n, k) in &self.labels {
                if *k == i {
                    s.push_str(n);
                    s.push(' ');
                }
            }
            s.push_str(&format!(".fill x{:04X}\n", w));
        }
        if self.breaks.contains(&self.words.len()) {
            s.push_str(".break\n");
        }
        s
    }
    pub fn script(&self) -> String {
        self.cmds.iter().map(|c| c.text()).collect::<Vec<_>>().join("\n")
    }
    pub fn request(&self) -> String {
        let mut s = format!(
            "{} {} {:x} {} {:04x} {:x}",
            self.tag, self.stack as u8, self.fuel, hex(&self.inp), self.orig, self.words.len()
        );
        for w in &self.words {
            s.push_str(&format!(" {:04x}", w));
        }
        s.push_str(&format!(" {:x}", self.breaks.len()));
        let mut b = self.breaks.clone();
        b.sort();
        for k in b {
            s.push_str(&format!(" {:x}", k));
        }
        s.push_str(&format!(" {:x}", self.labels.len()));
        for (n, k) in &self.labels {
            s.push_str(&format!(" {} {:x}", hex(n.as_bytes()), k));
        }
        let toks: Vec<String> = self.cmds.iter().map(|c| c.token()).collect();
        let toks = toks.join(" ");
        let ntok = if toks.is_empty() { 0 } else { toks.split(' ').count() };
        s.push_str(&format!(" {:x}", ntok));
        if ntok > 0 {
            s.push(' ');
            s.push_str(&toks);
        }
        if self.nm {
            s.push_str(" NM");
        }
        s
    }
    pub fn parse(line: &str, tag: &'static str) -> Option<DbgCase> {
        let mut f: Vec<&str> = line.split_whitespace().collect();
        let nm = f.last() == Some(&"NM");
        if nm {
            f.pop();
        }
        let h = |i: usize| -> Option<usize> { usize::from_str_radix(f.get(i)?, 16).ok() };
        let mut i = 1;
        let stack = *f.get(i)? != "0";
        i += 1;
        let fuel = h(i)? as u64;
        i += 1;
        let inp = unhex(f.get(i)?)?;
        i += 1;
        let orig = h(i)? as u16;
        i += 1;
        let n = h(i)?;
        i += 1;
        let mut words = Vec::new();
        for _ in 0..n {
            words.push(h(i)? as u16);
            i += 1;
        }
        let nb = h(i)?;
        i += 1;
        let mut breaks = Vec::new();
        for _ in 0..nb {
            breaks.push(h(i)?);
            i += 1;
        }
        let nl = h(i)?;
        i += 1;
        let mut labels = Vec::new();
        for _ in 0..nl {
            let name = String::from_utf8(unhex(f.get(i)?)?).ok()?;
            labels.push((name, h(i + 1)?));
            i += 2;
        }
        let nc = h(i)?;
        i += 1;
        let mut cmds = Vec::new();
        for _ in 0..nc {
            cmds.push(Cmd::parse(f.get(i)?)?);
            i += 1;
        }
        Some(DbgCase { tag, stack, fuel, inp, orig, words, breaks, labels, cmds, nm })
    }
}

/// A SOURCE-LEVEL session: a real assembly source (labels, instructions, directives, layout)
/// plus what the generator's abstract program says the debugger should know about it.  The
/// request carries the source text; the model driver assembles it with the Lean assembler model.
#[derive(Clone, Debug)]
pub struct SrcCase {
    pub tag: &'static str,
    pub stack: bool,
    pub fuel: u64,
    pub inp: Vec<u8>,
    pub src: String,
    /// origin according to the abstract program
    pub orig: u16,
    /// per image word: `renderStatement` of the statement that produced it
    pub texts: Vec<String>,
    /// word indices before which a `.break` stands
    pub breaks: Vec<usize>,
    /// label → index of the word it marks
    pub labels: Vec<(String, usize)>,
    pub cmds: Vec<Cmd>,
}

impl SrcCase {
    pub fn script(&self) -> String {
        self.cmds.iter().map(|c| c.text()).collect::<Vec<_>>().join("\n")
    }
    pub fn request(&self) -> String {
        let mut s = format!(
            "{} {} {:x} {} {} {:04x} {:x}",
            self.tag, self.stack as u8, self.fuel, hex(&self.inp), hex(self.src.as_bytes()), self.orig, self.texts.len()
        );
        for t in &self.texts {
            s.push(' ');
            s.push_str(&hex(t.as_bytes()));
        }
        s.push_str(&format!(" {:x}", self.breaks.len()));
        for k in &self.breaks {
            s.push_str(&format!(" {:x}", k));
        }
        s.push_str(&format!(" {:x}", self.labels.len()));
        for (n, k) in &self.labels {
            s.push_str(&format!(" {} {:x}", hex(n.as_bytes()), k));
        }
        let toks: Vec<String> = self.cmds.iter().map(|c| c.token()).collect();
        let toks = toks.join(" ");
        let ntok = if toks.is_empty() { 0 } else { toks.split(' ').count() };
        s.push_str(&format!(" {:x}", ntok));
        if ntok > 0 {
            s.push(' ');
            s.push_str(&toks);
        }
        s
    }
    pub fn parse(line: &str, tag: &'static str) -> Option<SrcCase> {
        let f: Vec<&str> = line.split_whitespace().collect();
        let h = |i: usize| -> Option<usize> { usize::from_str_radix(f.get(i)?, 16).ok() };
        let text = |i: usize| -> Option<String> { String::from_utf8(unhex(f.get(i)?)?).ok() };
        let stack = *f.get(1)? != "0";
        let fuel = h(2)? as u64;
        let inp = unhex(f.get(3)?)?;
        let src = text(4)?;
        let orig = h(5)? as u16;
        let nt = h(6)?;
        let mut i = 7;
        let mut texts = Vec::new();
        for _ in 0..nt {
            texts.push(text(i)?);
            i += 1;
        }
        let nb = h(i)?;
        i += 1;
        let mut breaks = Vec::new();
        for _ in 0..nb {
            breaks.push(h(i)?);
            i += 1;
        }
        let nl = h(i)?;
        i += 1;
        let mut labels = Vec::new();
        for _ in 0..nl {
            labels.push((text(i)?, h(i + 1)?));
            i += 2;
        }
        let nc = h(i)?;
        i += 1;
        let mut cmds = Vec::new();
        for _ in 0..nc {
            cmds.push(Cmd::parse(f.get(i)?)?);
            i += 1;
        }
        Some(SrcCase { tag, stack, fuel, inp, src, orig, texts, breaks, labels, cmds })
    }
}

/// Run a source-level session on the real assembler + debugger: the observation line.
pub fn run_src(cap: &mut Capture, c: &SrcCase) -> String {
    run_session(cap, c.stack, c.fuel, &c.inp, c.src.clone(), c.script()).line
}

/// The shapes of the lines the debugger prints in `--minimal` mode (DESIGN.md Appendix B):
/// identifier lines `Word::Word` / `CommandError`, values `x1234`, `R3 x1234`, `PC x1234`, `CC 010`,
/// echo lines `[…]`, and (for the `.fill` sources of these sessions) statement texts `.fill x1234`.
pub fn is_debugger_line(l: &str) -> bool {
    let hex4 = |s: &str| s.len() == 4 && s.bytes().all(|b| b.is_ascii_hexdigit());
    let word = |s: &str| !s.is_empty() && s.bytes().all(|b| b.is_ascii_alphanumeric());
    if l == "CommandError" {
        return true;
    }
    if let Some((a, b)) = l.split_once("::") {
        return word(a) && word(b);
    }
    if let Some(v) = l.strip_prefix('x') {
        return hex4(v);
    }
    if let Some(v) = l.strip_prefix("PC x") {
        return hex4(v);
    }
    if let Some(v) = l.strip_prefix("CC ") {
        return v.len() == 3 && v.bytes().all(|b| b == b'0' || b == b'1');
    }
    if l.len() == 8 && l.starts_with('R') && l.as_bytes()[1].is_ascii_digit() && &l[2..4] == " x" {
        return hex4(&l[4..]);
    }
    if l.starts_with('[') && l.ends_with(']') {
        return true;
    }
    if let Some(v) = l.strip_prefix(".fill x") {
        return hex4(v);
    }
    false
}

/// Non-empty stderr lines, without the runtime's own (unmodelled) messages; help text is
/// collapsed to `<help>`; what `eval` prints between its `[@e]` … `[@/e]` markers is kept when it
/// is identifier lines (`DisallowedInstruction::…`) and collapsed to `<evalmsg>` when it is a
/// diagnostic; what `assembly` prints between `[@a]` … `[@/a]` is kept byte for byte as ONE entry
/// (without the newline `show_assembly_source` adds), nothing when it printed no text.
pub fn stderr_lines(err: &[u8]) -> Vec<String> {
    let text = String::from_utf8_lossy(err);
    let mut out = Vec::new();
    let mut in_help = false;
    let mut in_eval: Option<Vec<String>> = None;
    let mut in_asm: Option<Vec<String>> = None;
    for raw in text.split('\n') {
        if let Some(seg) = &mut in_asm {
            if raw == "[@/a]" {
                // every piece was followed by a newline; the last one is `dprintln!(Always)`'s
                let joined = seg.join("\n");
                if !joined.is_empty() {
                    out.push(joined);
                }
                out.push(raw.to_string());
                in_asm = None;
            } else {
                seg.push(raw.to_string());
            }
            continue;
        }
        let l = raw.trim_end_matches('\r');
        if l.trim().is_empty() {
            continue;
        }
        if let Some(seg) = &mut in_eval {
            if l == "[@/e]" {
                if !seg.is_empty() {
                    if seg.iter().all(|x| x.starts_with("DisallowedInstruction::")) {
                        out.append(seg);
                    } else {
                        out.push("<evalmsg>".to_string());
                    }
                }
                out.push(l.to_string());
                in_eval = None;
            } else {
                seg.push(l.to_string());
            }
            continue;
        }
        if l == "[@e]" {
            in_eval = Some(Vec::new());
            out.push(l.to_string());
            continue;
        }
        if l == "[@a]" {
            in_asm = Some(Vec::new());
            out.push(l.to_string());
            continue;
        }
        // the help text is bracketed by the harness with `[@h]` … `[@/h]` echo markers
        if l == "[@h]" {
            in_help = true;
            out.push(l.to_string());
            continue;
        }
        if l == "[@/h]" {
            in_help = false;
            out.push("<help>".to_string());
            out.push(l.to_string());
            continue;
        }
        if in_help {
            continue;
        }
        // everything else the debugger itself prints in `--minimal` mode has a fixed shape; free
        // text (the runtime's own messages in whatever wording: exceptions, end of input, reserved
        // instruction, history-file warnings) is not part of any property and is not compared
        if !is_debugger_line(l) {
            continue;
        }
        out.push(l.to_string());
    }
    // a session that ended inside a bracket (exit from `eval getc` at end of input, panic): what
    // the runtime said on its way out is free text
    if let Some(mut seg) = in_eval {
        seg.retain(|x| is_debugger_line(x));
        if !seg.is_empty() {
            if seg.iter().all(|x| x.starts_with("DisallowedInstruction::")) {
                out.extend(seg);
            } else {
                out.push("<evalmsg>".to_string());
            }
        }
    }
    if let Some(seg) = in_asm {
        let joined = seg.join("\n");
        if !joined.is_empty() {
            out.push(joined);
        }
    }
    out
}

/// What `break list` printed in the NORMAL output mode, once per `Cmd::BreakListB` of the script:
/// stderr with the `ESC [ … final-byte` sequences removed, cut between the echo of the command
/// (`lace~ break list`, after the `[@b]` marker) and the echo of the next one (`lace~ echo @/b`).
/// Nothing else is touched: box characters, padding, `…`, line breaks inside cells stay.
pub fn break_tables(err: &[u8]) -> Vec<Vec<u8>> {
    fn find(h: &[u8], n: &[u8]) -> Option<usize> {
        if n.is_empty() || h.len() < n.len() {
            return None;
        }
        (0..=h.len() - n.len()).find(|&i| &h[i..i + n.len()] == n)
    }
    let s = crate::tty::strip_ansi(err);
    let mut out = Vec::new();
    let mut rest: &[u8] = &s;
    // between the output of the two `echo` markers (the prompt echoes in between contain no box
    // characters, whatever the prompt looks like)
    const OPEN: &[u8] = b"[@b]\n";
    const CLOSE: &[u8] = b"[@/b]\n";
    while let Some(i) = find(rest, OPEN) {
        rest = &rest[i + OPEN.len()..];
        // of what was printed, the table itself is compared: from its first `┌` to its last `┘`
        // (nothing when there is no table); the heading line and the "no breakpoints" notice —
        // wording, category symbol — are free text
        let cut = |seg: &[u8]| -> Vec<u8> {
            let t = String::from_utf8_lossy(seg).to_string();
            // (any style of top-left / bottom-right corner)
            match (t.find(|c| "┌╭┏╔".contains(c)), t.rfind(|c| "┘╯┛╝".contains(c))) {
                (Some(i), Some(j)) if i <= j => {
                    let w = t[j..].chars().next().map(|c| c.len_utf8()).unwrap_or(1);
                    t[i..j + w].as_bytes().to_vec()
                }
                _ => Vec::new(),
            }
        };
        match find(rest, CLOSE) {
            Some(k) => {
                out.push(cut(&rest[..k]));
                rest = &rest[k..];
            }
            None => {
                out.push(cut(rest));
                break;
            }
        }
    }
    out
}

pub struct DbgObs {
    pub line: String,
    /// everything the session wrote to stderr, raw
    pub err: Vec<u8>,
    /// final observable of the program itself: (outcome, regs, memdiff, stdout) for comparison
    /// with an undebugged run
    pub program: String,
    pub iterations: u64,
    pub executed: usize,
    pub commands: usize,
}

pub fn run_plain(cap: &mut Capture, c: &DbgCase) -> String {
    set_features(c.stack);
    lace::set_minimal(!c.nm);
    let mut image = vec![c.orig];
    image.extend_from_slice(&c.words);
    let mut slot = None;
    match guarded(|| slot = Some(RunEnvironment::from_raw(&image).expect("from_raw"))) {
        Outcome::Ok => {}
        _ => return "load-failed".into(),
    }
    let mut env = slot.unwrap();
    let shadow: Vec<u16> = env.verif_mem().to_vec();
    cap.set_stdin(&c.inp);
    lace::verif::set_fuel(Some(c.fuel));
    cap.begin();
    let outcome = guarded(|| env.run());
    let (out, _) = cap.end();
    lace::verif::set_fuel(None);
    let _ = cap.drain_stdin();
    let head = match outcome {
        Outcome::Ok => "done".to_string(),
        Outcome::Exit(code) => format!("exit {}", code),
        Outcome::Fuel => "fuel".to_string(),
        Outcome::Panic(_) => return "panic".into(),
    };
    let (d, _) = mem_diff(&env.verif_mem()[..], &shadow);
    format!("{} {} |{} | {}", head, show_regs(&env), d, hex(&out))
}

/// Run the session on the real assembler + debugger.
pub fn run_debug(cap: &mut Capture, c: &DbgCase) -> DbgObs {
    let _watch = crate::watch::Guard::new(&c.request());
    run_session_mode(cap, c.stack, c.fuel, &c.inp, c.source(), c.script(), c.nm)
}

/// Assemble `source` with the real assembler and run `script` in the real debugger.
pub fn run_session(cap: &mut Capture, stack: bool, fuel: u64, inp: &[u8], source: String, script: String) -> DbgObs {
    run_session_mode(cap, stack, fuel, inp, source, script, false)
}

/// `nm`: run in the normal (non `--minimal`) output mode.
pub fn run_session_mode(cap: &mut Capture, stack: bool, fuel: u64, inp: &[u8], source: String, script: String, nm: bool) -> DbgObs {
    struct C<'a> {
        stack: bool,
        fuel: u64,
        inp: &'a [u8],
        nm: bool,
    }
    let c = C { stack, fuel, inp, nm };
    set_features(c.stack);
    lace::set_minimal(!c.nm);
    lace::reset_state();
    let src: &'static str = Box::leak(source.into_boxed_str());
    let mut slot: Option<RunEnvironment> = None;
    // 0 = assembled, 1 = the assembler returned an error
    let mut asm_err = false;
    let load = guarded(|| {
        let air = lace::AsmParser::new(src).and_then(|p| p.parse()).and_then(|mut air| {
            air.backpatch()?;
            Ok(air)
        });
        let air = match air {
            Ok(air) => air,
            Err(_) => {
                asm_err = true;
                return;
            }
        };
        let opts = lace::debugger::Options { command: Some(script.clone()) };
        match RunEnvironment::try_from(air, Some(opts)) {
            Ok(env) => slot = Some(env),
            Err(_) => asm_err = true,
        }
    });
    let fail = |s: &str| DbgObs { line: s.to_string(), err: Vec::new(), program: s.to_string(), iterations: 0, executed: 0, commands: 0 };
    match load {
        Outcome::Ok => {}
        Outcome::Exit(code) => return fail(&format!("loadexit {}", code)),
        Outcome::Panic(_) => return fail("loadpanic"),
        Outcome::Fuel => return fail("loadfuel"),
    }
    if asm_err {
        return fail("asmdiag");
    }
    let mut env = slot.unwrap();
    let shadow: Vec<u16> = env.verif_mem().to_vec();
    cap.set_stdin(c.inp);
    lace::verif::set_fuel(Some(c.fuel));
    lace::verif::set_logging(true);
    cap.begin();
    let outcome = guarded(|| env.run());
    let (out, err) = cap.end();
    let events = lace::verif::take_events();
    let iterations = lace::verif::ticks();
    lace::verif::set_logging(false);
    lace::verif::set_fuel(None);
    let left = cap.drain_stdin();
    let pcs: Vec<u16> = events.iter().filter_map(|e| if let Event::Exec(pc) = e { Some(*pc) } else { None }).collect();
    let ncmds = events.iter().filter(|e| matches!(e, Event::Cmd)).count();
    // interleaving of commands and executions: for each command, how many instructions had
    // been executed before it (mod 2^16, hashed)
    let mut cmd_at: Vec<u16> = Vec::new();
    let mut seen = 0usize;
    for e in &events {
        match e {
            Event::Exec(_) => seen += 1,
            Event::Cmd => cmd_at.push(seen as u16),
        }
    }
    let head = match outcome {
        Outcome::Ok => "done".to_string(),
        Outcome::Exit(code) => format!("exit {}", code),
        Outcome::Fuel => "fuel".to_string(),
        Outcome::Panic(m) => {
            if std::env::var("LVH_DEBUG").is_ok() {
                cap.say(&format!("panic in session: {}\n", m));
            }
            return DbgObs {
                line: "panic".to_string(),
                err,
                program: { let _ = m; "panic".to_string() },
                iterations,
                executed: pcs.len(),
                commands: ncmds,
            }
        }
    };
    let (d, _) = mem_diff(&env.verif_mem()[..], &shadow);
    let bps = match env.verif_breakpoints() {
        Some(list) => {
            if list.is_empty() {
                "none".to_string()
            } else {
                list.iter().map(|(a, p)| format!("{:04x}{}", a, if *p { "p" } else { "r" })).collect::<Vec<_>>().join(",")
            }
        }
        None => "-".to_string(),
    };
    let lines = stderr_lines(&err);
    let errs = if c.nm { "~".to_string() } else if lines.is_empty() { "-".to_string() } else { lines.iter().map(|l| hex(l.as_bytes())).collect::<Vec<_>>().join(",") };
    let program = format!("{} {} |{} | {}", head, show_regs(&env), d, hex(&out));
    let line = format!(
        "{} {} |{} | {} {} | {} {:016x} | {} {:016x} | {} | {}",
        head, show_regs(&env), d, hex(&out), left, pcs.len(), fnv(&pcs), ncmds, fnv(&cmd_at), bps, errs
    );
    DbgObs { line, err, program, iterations, executed: pcs.len(), commands: ncmds }
}

/// A word-level program plus labels and `.break` directives at random statements.
pub fn decorate(rng: &mut Rng, p: &Prog, tag: &'static str, cmds: Vec<Cmd>, fuel: u64) -> DbgCase {
    let n = p.words.len();
    let mut breaks = Vec::new();
    for _ in 0..rng.below(3) {
        breaks.push(rng.below(n as u64 + 1) as usize);
    }
    breaks.sort();
    breaks.dedup();
    let mut labels = Vec::new();
    for k in 0..rng.below(4) {
        let idx = rng.below(n.max(1) as u64) as usize;
        // lace allows at most one label per statement
        if n > 0 && !labels.iter().any(|(_, i): &(String, usize)| *i == idx) {
            labels.push((format!("zq{}", k), idx));
        }
    }
    DbgCase { tag, stack: p.stack, fuel, inp: p.inp.clone(), orig: p.orig, words: p.words.clone(), breaks, labels, cmds, nm: false }
}

pub fn rand_loc(rng: &mut Rng, c_orig: u16, n: usize, labels: &[(String, usize)]) -> Loc {
    match rng.below(10) {
        0..=3 => Loc::Addr(c_orig.wrapping_add(rng.below(n as u64 + 2) as u16)),
        4 => Loc::Addr(*rng.pick(&[0u16, c_orig.wrapping_sub(1), 0xFDFF, 0xFE00, 0xFFFF, 0x8000, 0x7FFF])),
        5 | 6 => Loc::Pc(rng.range(-3, 6) as i32),
        7 => Loc::Pc(*rng.pick(&[-32768i32, 32767, -1, 0, 1, 0x7000, -0x7000])),
        _ => {
            if labels.is_empty() {
                Loc::Label("nolabel".into(), 0)
            } else {
                let (nme, _) = rng.pick(labels).clone();
                let off = if rng.chance(1, 2) { 0 } else if rng.chance(1, 6) { *rng.pick(&[32767i32, -32768, 0x4000, -0x4000]) } else { rng.range(-4, 8) as i32 };
                Loc::Label(nme, off)
            }
        }
    }
}

/// A command that does not mutate the program's machine state (C09's alphabet).
pub fn rand_nonmutating(rng: &mut Rng, orig: u16, n: usize, labels: &[(String, usize)]) -> Cmd {
    match rng.below(14) {
        0 | 1 => Cmd::StepOver,
        2 | 3 => Cmd::StepInto(*rng.pick(&[0u16, 1, 1, 2, 3, 7, 50, 65535])),
        4 => Cmd::StepOut,
        5 | 6 => Cmd::Continue,
        7 => Cmd::BreakAdd(rand_loc(rng, orig, n, labels)),
        8 => Cmd::BreakRemove(rand_loc(rng, orig, n, labels)),
        9 => Cmd::BreakList,
        10 => {
            if rng.chance(1, 2) {
                Cmd::PrintReg(rng.below(8) as u8)
            } else {
                Cmd::PrintMem(rand_loc(rng, orig, n, labels))
            }
        }
        11 => Cmd::Registers,
        12 => Cmd::Assembly(rand_loc(rng, orig, n, labels)),
        _ => Cmd::Echo(format!("m{}", rng.below(100))),
    }
}

/// An `eval` command: every kind of instruction (label operands use the session's labels),
/// off-limits ones and malformed text.
pub fn rand_eval(rng: &mut Rng, labels: &[(String, usize)]) -> Cmd {
    let lbl = if labels.is_empty() || rng.chance(1, 10) { "nolabel".to_string() } else { rng.pick(labels).0.clone() };
    let forms: [&str; 30] = [
        "add r1 r1 #1", "add r2 r1 r7", "and r2 r2 #0", "and r0 r7 #-1", "not r3 r3", "str r7 r0 #0", "str r1 r0 #-1",
        "ldr r4 r0 #1", "ldr r4 r7 #-3", "st r5 {}", "ld r6 {}", "lea r0 {}", "sti r1 {}", "ldi r2 {}", "jmp r7", "jsrr r0",
        "ret", "jsr {}", "br {}", "brz {}", "halt", "rti", "trap x30", "out", "putn", "push r1", "pop r2", "foo",
        "add r1 r1", "add r1 r1 #1 #2",
    ];
    Cmd::Eval(rng.pick(&forms).replace("{}", &lbl))
}

/// A word to store with `move`: half of the time one that means something to the debugger itself
/// (HALT, the call and return instructions `step` / `step out` look for, a branch to itself, other
/// traps, a NOP) — what the debugger decides from the word at the PC must be decided from memory as
/// it is now, not as it was loaded.
pub fn move_value(rng: &mut Rng) -> u16 {
    if rng.chance(1, 2) {
        *rng.pick(&[0xF025u16, 0xF025, 0xF125, 0xFF25, 0xCFFF, 0xDBFF, 0x467F, 0x4800, 0x4801, 0x4FFF, 0x4040, 0x41C0, 0xC1C0, 0xD800, 0xDC00, 0xDC01, 0x0FFF, 0x0000, 0xF021, 0xF0FF, 0x8000])
    } else {
        rng.u16()
    }
}

pub fn rand_mutating(rng: &mut Rng, orig: u16, n: usize, labels: &[(String, usize)]) -> Cmd {
    if rng.chance(1, 6) {
        return rand_eval(rng, labels);
    }
    match rng.below(6) {
        0 | 1 => Cmd::MoveReg(rng.below(8) as u8, *rng.pick(&[0u16, 1, 0x7FFF, 0x8000, 0xFFFF, 0x1234])),
        2 | 3 => Cmd::MoveMem(rand_loc(rng, orig, n, labels), move_value(rng)),
        4 => Cmd::Goto(rand_loc(rng, orig, n, labels)),
        _ => Cmd::Reset,
    }
}

fn finish_script(rng: &mut Rng, cmds: &mut Vec<Cmd>, has_input: bool) {
    // I8: with program input present the script must end the debugger itself
    if has_input || rng.chance(2, 3) {
        cmds.push(if rng.chance(4, 5) { Cmd::Quit } else { Cmd::Exit });
    }
}

/// C09: terminating program × non-mutating script, compared with the undebugged run.
pub fn run_c09(o: &crate::Opts) {
    let mut cap = Capture::install();
    let mut sink = crate::Sink::new(o);
    if let Some(path) = &o.replay {
        for line in std::fs::read_to_string(path).unwrap().lines() {
            if line.starts_with("T09 ") {
                match TextCase::parse(line) {
                    Some(t) => sink.put(line, &run_text(&mut cap, &t)),
                    None => sink.put(line, "bad-request"),
                }
                continue;
            }
            match DbgCase::parse(line, "D09") {
                Some(c) => {
                    let obs = run_debug(&mut cap, &c);
                    let plain = run_plain(&mut cap, &c);
                    let same = if inconclusive(&c, &obs.program, &plain) || obs.program == plain { "plain=same" } else { "plain=differs" };
                    sink.put(line, &format!("{} | {}", obs.line, same));
                }
                None => sink.put(line, "bad-request"),
            }
        }
        sink.finish(o, "{}");
        return;
    }
    let mut rng = Rng::new(o.seed.wrapping_mul(2654435761) ^ (o.shard as u64) << 32 ^ 0xC09);
    let total: u64 = if o.thorough { 100_000 } else { 3_200 };
    let per = total / o.nshards as u64;
    let mut kinds: std::collections::BTreeMap<String, u64> = Default::default();
    let mut samples = Vec::new();
    let mut differs = 0u64;
    if o.shard == 0 {
        // corpus: the hand-over of standard input at `quit` (every delivery, both delimiters)
        for t in directed_input_text_cases() {
            let obs = run_text(&mut cap, &t);
            *kinds.entry(format!("directed-text-session-stdin-shared:{}", obs.split(' ').next().unwrap_or(""))).or_default() += 1;
            sink.put(&t.request(), &obs);
        }
    }
    for k in 0..per {
        if k % 4 == 3 {
            // one text session in three has a program that reads input: the script on standard
            // input ends in `quit` + one delimiter and the program's input follows immediately
            let (t, kind) = if k % 12 == 3 { (gen_input_text_case(&mut rng), "text-session-stdin-shared") } else { (gen_text_case(&mut rng), "text-session") };
            let obs = run_text(&mut cap, &t);
            *kinds.entry(format!("{}:{}", kind, obs.split(' ').next().unwrap_or(""))).or_default() += 1;
            sink.put(&t.request(), &obs);
            continue;
        }
        let p = gen_structured(&mut rng);
        if p.kind == "rti" {
            continue;
        }
        let n = p.words.len();
        let mut c = decorate(&mut rng, &p, "D09", vec![], 60_000);
        let mut cmds = Vec::new();
        for _ in 0..rng.below(12) {
            cmds.push(rand_nonmutating(&mut rng, p.orig, n, &c.labels));
        }
        finish_script(&mut rng, &mut cmds, !p.inp.is_empty());
        c.cmds = cmds;
        c.nm = rng.chance(1, 5);
        let obs = run_debug(&mut cap, &c);
        let plain = run_plain(&mut cap, &c);
        // the `exit` command ends the program early by design: transparency is claimed for
        // scripts ending in `quit` / end of input
        let same = if inconclusive(&c, &obs.program, &plain) || obs.program == plain { "plain=same" } else { differs += 1; "plain=differs" };
        *kinds.entry(format!("{}:{}", p.kind, obs.line.split(' ').next().unwrap_or(""))).or_default() += 1;
        if samples.len() < 2 && rng.chance(1, 50) {
            samples.push(format!("{{\"program_kind\":\"{}\",\"words\":{},\"script\":{:?},\"executed\":{},\"commands\":{}}}", p.kind, n, c.script(), obs.executed, obs.commands));
        }
        if obs.line == "panic" {
            sink.put(&c.request(), "panic | -");
        } else {
            sink.put(&c.request(), &format!("{} | {}", obs.line, same));
        }
    }
    let kinds_json: Vec<String> = kinds.iter().map(|(k, v)| format!("\"{}\":{}", k, v)).collect();
    let n_cases = sink.n;
    sink.finish(o, &format!("{{\"cases\":{},\"differs_from_plain\":{},\"kind_and_outcome\":{{{}}},\"samples\":[{}]}}", n_cases, differs, kinds_json.join(","), samples.join(",")));
}

fn inconclusive(c: &DbgCase, debug: &str, plain: &str) -> bool {
    c.cmds.iter().any(|x| *x == Cmd::Exit) || debug.starts_with("fuel") || plain.starts_with("fuel")
}

// ------------------------------------------------------------------ C10–C13, C16

/// Plain run of the image for exactly `k` instructions (or until it stops): `regs |memdiff | out`.
fn plain_advanced(cap: &mut Capture, c: &DbgCase, k: u64) -> String {
    let mut c2 = c.clone();
    c2.fuel = k;
    let s = run_plain(cap, &c2);
    strip_head(&s)
}

fn strip_head(s: &str) -> String {
    // drop the outcome word(s): everything up to the 4-hex-digit PC
    let f: Vec<&str> = s.split(' ').collect();
    let start = if f.first() == Some(&"exit") { 2 } else { 1 };
    f[start.min(f.len())..].join(" ")
}

fn only_c10_alphabet(c: &DbgCase) -> bool {
    c.cmds.iter().all(|x| matches!(x, Cmd::StepOver | Cmd::StepInto(_) | Cmd::StepOut | Cmd::Continue | Cmd::BreakAdd(_) | Cmd::BreakRemove(_) | Cmd::Exit | Cmd::Quit))
}

/// Property-specific verdict appended to the observation (computed the same way by the driver).
fn verdict(cap: &mut Capture, tag: &str, c: &DbgCase, obs: &DbgObs) -> String {
    match tag {
        "D09" => {
            let plain = run_plain(cap, c);
            if inconclusive(c, &obs.program, &plain) || obs.program == plain { "plain=same".into() } else { "plain=differs".into() }
        }
        "D10" => {
            if !only_c10_alphabet(c) || obs.program.starts_with("fuel") || obs.program.starts_with("panic") || obs.program.starts_with("load") {
                return "adv=na".into();
            }
            let adv = plain_advanced(cap, c, obs.executed as u64);
            if strip_head(&obs.program) == adv { "adv=same".into() } else { "adv=differs".into() }
        }
        "D12" => {
            let n = c.cmds.len();
            if n >= 2 && c.cmds[n - 2] == Cmd::Reset && c.cmds[n - 1] == Cmd::Exit && obs.program.starts_with("done") {
                // registers, PC, CC and all 65,536 words as loaded
                let want = format!("{:04x} 0 0000 0000 0000 0000 0000 0000 0000 fdff | - |", c.orig);
                if strip_head(&obs.program).starts_with(&want) { "reset=ok".into() } else { "reset=bad".into() }
            } else {
                "reset=na".into()
            }
        }
        "D16" => {
            let bound = obs.executed as u64 + obs.commands as u64 + 1;
            if obs.program.starts_with("fuel") || obs.iterations <= bound { "progress=ok".into() } else { format!("progress=bad") }
        }
        _ => "-".into(),
    }
}

fn small_programs() -> Vec<(u16, Vec<u16>, bool, &'static str)> {
    vec![
        // self-loop: BRnzp -1
        (0x3000, vec![0x1021, 0x0FFF, 0xF025], false, "self-loop"),
        // two-instruction loop with exit by counter
        (0x3000, vec![0x5020, 0x1023, 0x103F, 0x03FE, 0xF025], false, "count-loop"),
        // recursive subroutine (JSR/RET with manual stack in R6): f(n): if n==0 ret; n--; save r7; jsr f; restore; ret
        (0x3000, vec![0x5020, 0x1022, 0x2C0B, 0x4801, 0xF025, /*f:*/ 0x1020, 0x0406, 0x103F, 0x1DBF, 0x7F80, 0x4FFA, 0x6F80, 0x1DA1, 0xC1C0, /*sp:*/ 0x4000], false, "recursion-jsr"),
        // CALL/RETS recursion
        (0x3000, vec![0x5020, 0x1022, 0xDC01, 0xF025, /*f:*/ 0x1020, 0x0402, 0x103F, 0xDFFC, 0xD800], true, "recursion-call"),
        // HALT in the middle
        (0x3000, vec![0x1021, 0xF025, 0x1021, 0x1021, 0xF025], false, "halt-middle"),
        // jump to 0xFFFF
        (0x3000, vec![0x2201, 0xC040, 0xFFFF], false, "jump-ffff"),
        // jump below origin / above user space
        (0x3000, vec![0x2201, 0xC040, 0x2FFF], false, "jump-below"),
        (0x3000, vec![0x2201, 0xC040, 0xFE00], false, "jump-above"),
        // stores outside user space: below the origin and at 0xFE00 (only executed stores reach there)
        (0x3000, vec![0x5020, 0x1025, 0x2204, 0x7040, 0x2203, 0x7040, 0xF025, 0x2FFF, 0xFE00], false, "store-outside"),
        // high origin
        (0x9000, vec![0x1021, 0x1021, 0x4801, 0xF025, 0x1262, 0xC1C0], false, "high-origin"),
        // calls whose target is their own return address (JSR +0, JSRR to PC+1, CALL +0): after
        // the one instruction PC already is the return address
        (0x3000, vec![0x1021, 0x4800, 0x1021, 0xF025], false, "jsr-next"),
        (0x3000, vec![0xE201, 0x4040, 0x1021, 0xF025], false, "jsrr-next"),
        (0x3000, vec![0x1021, 0xDC00, 0x1021, 0xF025], true, "call-next"),
        // the first instruction stores outside user space and changes no register and no flag
        (0x3000, vec![0x7E00, 0x1021, 0xF025], false, "store-low-first"),
        (0x3000, vec![0x3E01, 0xF025, 0xF025], false, "store-self-first"),
        // images that straddle the end of user space (0xFE00): statements, labels and `.break`
        // directives beyond it exist but are not valid locations
        (0xFDFE, vec![0x1021, 0x1021, 0x1021, 0xF025, 0xF025], false, "straddle-top"),
        (0xFDFF, vec![0x1021, 0xF025, 0x1021, 0xF025], false, "straddle-top-1"),
        // the program leaves its own image (a jump into untouched memory inside user space, which
        // reads as NOPs up to the end of user space): run-time breakpoints out there are breakpoints
        (0x3000, vec![0x2002, 0xC000, 0xF025, 0xFD00], false, "jump-beyond-image"),
        (0x3000, vec![0x2002, 0x4000, 0xF025, 0xFDF0], false, "jsrr-beyond-image"),
        // an image loaded above user space: no address at all is a valid location
        (0xFF00, vec![0x1021, 0x1021, 0xF025], false, "above-user-space"),
        (0xFE01, vec![0x1021, 0xF025], false, "above-user-space-1"),
        // origin 0x0000 / 0x0001: address arithmetic below the origin has nowhere to go but under
        // zero (clamping it would land on address 0, which is in user space here)
        // the program overwrites its own first instruction and loops back to it: paused at the
        // origin, the word there is not the assembled one (what `reset` puts back must be what runs)
        (0x3000, vec![0x31FF, 0x1261, 0x0FFD, 0xF025], false, "overwrite-origin"),
        (0x0000, vec![0x1021, 0x1021, 0x1021, 0xF025, 0x0000], false, "origin-zero"),
        // a subroutine that never returns: it leaves user space (to 0xFFFF, to 0xFE00, below the
        // origin) — `step` over the call must pause there like every other resuming command
        (0x3000, vec![0x4801, 0xF025, 0x2201, 0xC040, 0xFFFF], false, "jsr-leave-ffff"),
        (0x3000, vec![0x4801, 0xF025, 0x2201, 0xC040, 0xFE00], false, "jsr-leave-above"),
        (0x3000, vec![0x4801, 0xF025, 0x2201, 0xC040, 0x2FFF], false, "jsr-leave-below"),
        // … and a subroutine whose RET is stored at run time (`step out` looks for it in memory as it is)
        (0x3000, vec![0x2005, 0x3003, 0x4801, 0xF025, 0x1261, 0x1261, 0xC1C0], false, "store-ret-ahead"),
        // the program stores a HALT / a JSR onto its own path: what the debugger does at that
        // address (refuse to run on, step over the call) depends on the word that is there NOW
        (0x3000, vec![0x2004, 0x3001, 0x1261, 0x1261, 0xF025, 0xF025], false, "store-halt-ahead"),
        (0x3000, vec![0x2006, 0x3001, 0x1261, 0x1261, 0x14A1, 0xF025, 0xC1C0, 0x4802], false, "store-jsr-ahead"),
        // … and removes a HALT / a JSR that was assembled there
        (0x3000, vec![0x2004, 0x3001, 0x1261, 0xF025, 0x14A1, 0x1261, 0xF025], false, "store-over-halt"),
        (0x3000, vec![0x2006, 0x3001, 0x1261, 0x4802, 0x14A1, 0xF025, 0xC1C0, 0x1261], false, "store-over-jsr"),
        (0x0001, vec![0x1021, 0x1021, 0xF025], false, "origin-one"),
        // words whose unused bits are set: TRAP x25 with bits [11:8] (the VM decodes the vector from
        // the low byte alone, so these halt), JMP R7 with bits [11:9] and [5:0] (still a return)
        (0x3000, vec![0x1021, 0x1021, 0xF125, 0x1021, 0xF025], false, "halt-junk-bits"),
        (0x3000, vec![0x1021, 0xFF25, 0x1021, 0xF025], false, "halt-junk-bits-f"),
        (0x3000, vec![0x4802, 0x1021, 0xF825, 0x1261, 0xCFFF], false, "ret-junk-bits"),
        // RETS with bits [9:0] set, JSRR R1 with bits [10:9] and [5:0] set
        (0x3000, vec![0x1021, 0xDC01, 0xF025, 0x1261, 0xDBFF], true, "rets-junk-bits"),
        (0x3000, vec![0xE202, 0x467F, 0xF025, 0x1261, 0xC1C0], false, "jsrr-junk-bits"),
    ]
}

/// `reset` while paused at the origin on a word the program has overwritten, then resume: the
/// instruction executed next must be the restored one.
fn reset_at_origin_sessions(tag: &'static str) -> Vec<(DbgCase, &'static str)> {
    let mut out = Vec::new();
    let mut rng = Rng::new(0x0217);
    for resume in [Cmd::StepOver, Cmd::StepInto(1), Cmd::StepInto(2), Cmd::Continue] {
        for pre in 0..3 {
            let p = Prog { orig: 0x3000, words: vec![0x31FF, 0x1261, 0x0FFD, 0xF025], inp: vec![], stack: false, minimal: true, kind: "overwrite-origin" };
            let mut c = decorate(&mut rng, &p, tag, vec![], 3_000);
            c.breaks = if pre == 2 { vec![0] } else { vec![] };
            c.labels.clear();
            let mut cmds = vec![Cmd::StepInto(3)];
            if pre == 1 {
                cmds.push(Cmd::PrintMem(Loc::Addr(0x3000)));
            }
            cmds.push(Cmd::Reset);
            cmds.push(resume.clone());
            cmds.extend([Cmd::PrintMem(Loc::Addr(0x3000)), Cmd::Registers, Cmd::Exit]);
            c.cmds = cmds;
            out.push((c, "overwrite-origin"));
        }
    }
    out
}

/// More memory writes between load and `reset` than any bounded journal of changes would hold
/// (0x9000 and 0x10100 stores, the second wrapping around all of memory): `continue; reset; exit`
/// is followed by the harness's comparison of all 65,536 words with the loaded image.
fn many_writes_sessions(tag: &'static str) -> Vec<(DbgCase, &'static str)> {
    let mut out = Vec::new();
    let mut rng = Rng::new(0x3A27);
    for (count, base) in [(0x9000u16, 0x4000u16), (0x8001, 0x4000), (0x0100, 0x3100), (0xFFF0, 0x300A)] {
        // ld r1 cnt / ld r2 base / and r0 r0 #0 / add r0 r0 #10 / loop: str r0 r2 #0 / add r2 r2 #1 /
        // add r1 r1 #-1 / brnp loop / halt / cnt / base
        let words = vec![0x2209, 0x2409, 0x5020, 0x102A, 0x7080, 0x14A1, 0x127F, 0x0BFC, 0xF025, 0x0000, count, base];
        let p = Prog { orig: 0x3000, words, inp: vec![], stack: false, minimal: true, kind: "many-writes" };
        let mut c = decorate(&mut rng, &p, tag, vec![], 600_000);
        c.breaks.clear();
        c.labels.clear();
        c.cmds = vec![Cmd::Continue, Cmd::Reset, Cmd::Registers, Cmd::Exit];
        out.push((c.clone(), "many-writes"));
        // … and again: after the first reset a few instructions run (their first store hits the
        // word that was written last before the reset), or a `move` writes that word, then `reset`
        for k in [5u16, 6, 9, 13] {
            let mut c2 = c.clone();
            c2.cmds = vec![Cmd::Continue, Cmd::Reset, Cmd::StepInto(k), Cmd::Reset, Cmd::Registers, Cmd::Exit];
            out.push((c2, "many-writes"));
        }
        let last = base.wrapping_add(count).wrapping_sub(1);
        let mut c3 = c.clone();
        c3.cmds = vec![Cmd::Continue, Cmd::Reset, Cmd::MoveMem(Loc::Addr(last), 5), Cmd::Reset, Cmd::PrintMem(Loc::Addr(last)), Cmd::Exit];
        out.push((c3, "many-writes"));
        let mut c4 = c.clone();
        c4.cmds = vec![Cmd::Continue, Cmd::Reset, Cmd::MoveMem(Loc::Addr(base), 5), Cmd::Reset, Cmd::Continue, Cmd::Reset, Cmd::StepInto(5), Cmd::Reset, Cmd::Exit];
        out.push((c4, "many-writes"));
    }
    out
}

/// Run-time breakpoints at addresses that hold no statement of the program (beyond its image),
/// reached by a jump: they pause like any other, fire again, and stop firing once removed.
fn beyond_image_sessions(tag: &'static str) -> Vec<(DbgCase, &'static str)> {
    let mut out = Vec::new();
    let mut rng = Rng::new(0xBE70);
    for (target, bp) in [(0xFD00u16, 0xFD10u16), (0xFD00, 0xFD00), (0xFDF0, 0xFDFF), (0x3005, 0x3006), (0x8000, 0x8001)] {
        for variant in 0..3 {
            let p = Prog { orig: 0x3000, words: vec![0x2002, 0xC000, 0xF025, target], inp: vec![], stack: false, minimal: true, kind: "jump-beyond-image" };
            let mut c = decorate(&mut rng, &p, tag, vec![], 60_000);
            c.breaks.clear();
            c.labels.clear();
            let mut cmds = vec![Cmd::BreakAdd(Loc::Addr(bp)), Cmd::BreakList, Cmd::Continue, Cmd::Registers];
            match variant {
                0 => cmds.extend([Cmd::Goto(Loc::Addr(target)), Cmd::Continue, Cmd::Registers]),
                1 => cmds.extend([Cmd::BreakRemove(Loc::Addr(bp)), Cmd::Goto(Loc::Addr(target)), Cmd::Continue, Cmd::Registers]),
                _ => cmds.extend([Cmd::StepOver, Cmd::Registers, Cmd::Goto(Loc::Addr(bp)), Cmd::StepInto(2), Cmd::Registers]),
            }
            cmds.push(Cmd::Exit);
            c.cmds = cmds;
            out.push((c, "jump-beyond-image"));
        }
    }
    out
}

/// An image of more than 32,768 words whose subroutine lies 0x8001 words after the origin: word
/// distances from the origin that do not fit a signed 16-bit number.  Predefined and run-time
/// breakpoints out there, stepping into / over / out of the far call, writes to the far data word,
/// `reset` at the end (all 65,536 words are compared after it by D12's verdict).
fn far_image_sessions(tag: &'static str) -> Vec<(DbgCase, &'static str)> {
    let mut out = Vec::new();
    let mut rng = Rng::new(0xFA12);
    for (orig, gap) in [(0x3000u16, 0x8001usize), (0x0100, 0xC000), (0x7FFF, 0x7DF0)] {
        let far = orig.wrapping_add(gap as u16);
        // ld r0 far_ptr / jsrr r0 / halt / far_ptr / zeros … / far: add r1 r1 #1 / st r1 data / ret / data
        let mut words = vec![0x2002u16, 0x4000, 0xF025, far];
        words.resize(gap, 0);
        words.extend([0x1261, 0x3201, 0xC1C0, 0x0000]);
        let at = |k: usize| Loc::Addr(orig.wrapping_add(k as u16));
        for variant in 0..4 {
            let p = Prog { orig, words: words.clone(), inp: vec![], stack: false, minimal: true, kind: "far-image" };
            let mut c = decorate(&mut rng, &p, tag, vec![], 60_000);
            c.labels.clear();
            c.breaks = if variant == 0 { vec![gap, gap + 2] } else { vec![] };
            let mut cmds = Vec::new();
            match variant {
                0 => cmds.extend([Cmd::BreakList, Cmd::Continue, Cmd::Registers, Cmd::Continue, Cmd::Registers, Cmd::StepOut, Cmd::Registers, Cmd::BreakRemove(at(gap)), Cmd::BreakList]),
                1 => cmds.extend([
                    Cmd::BreakAdd(at(gap + 1)), Cmd::BreakAdd(at(gap - 1)), Cmd::BreakList, Cmd::Continue, Cmd::Registers, Cmd::StepInto(1),
                    Cmd::PrintMem(at(gap + 3)), Cmd::BreakRemove(at(gap + 1)), Cmd::Continue, Cmd::Registers,
                ]),
                2 => cmds.extend([Cmd::StepInto(3), Cmd::Registers, Cmd::PrintMem(at(gap + 3)), Cmd::StepOut, Cmd::Registers, Cmd::PrintMem(at(gap + 3))]),
                _ => cmds.extend([
                    Cmd::StepInto(1), Cmd::StepOver, Cmd::Registers, Cmd::Goto(at(gap)), Cmd::StepInto(2), Cmd::Registers,
                    Cmd::PrintMem(at(gap + 3)), Cmd::PrintMem(at(gap + 4)), Cmd::BreakAdd(at(gap + 4)), Cmd::BreakList,
                ]),
            }
            cmds.extend([Cmd::Reset, Cmd::Exit]);
            c.cmds = cmds;
            out.push((c, "far-image"));
        }
    }
    out
}

/// Breakpoints a power-of-two stride apart in a long straight-line program: add both (or declare
/// them with `.break`), remove one, run into the other — a lookup structure keyed by part of the
/// address (hash, bitmap, page) must not lose the survivor.
fn stride_sessions(tag: &'static str) -> Vec<(DbgCase, &'static str)> {
    let mut out = Vec::new();
    let mut rng = Rng::new(0x57A1DE);
    let n = 0x120usize;
    let mut words = vec![0x1021u16; n];
    words.push(0xF025);
    for stride in [8usize, 16, 32, 64, 128, 256] {
        for (a, variant) in [(5usize, 0), (5, 1), (0, 2), (17, 3)] {
            let b = a + stride;
            if b >= n {
                continue;
            }
            let p = Prog { orig: 0x3000, words: words.clone(), inp: vec![], stack: false, minimal: true, kind: "straight-long" };
            let mut c = decorate(&mut rng, &p, tag, vec![], 30_000);
            c.labels.clear();
            let at = |k: usize| Loc::Addr(0x3000 + k as u16);
            let mut cmds = Vec::new();
            match variant {
                0 => {
                    c.breaks = vec![];
                    cmds.extend([Cmd::BreakAdd(at(a)), Cmd::BreakAdd(at(b)), Cmd::BreakRemove(at(a))]);
                }
                1 => {
                    c.breaks = vec![a, b];
                    cmds.push(Cmd::BreakRemove(at(a)));
                }
                2 => {
                    c.breaks = vec![b];
                    cmds.extend([Cmd::BreakAdd(at(a)), Cmd::BreakRemove(at(a)), Cmd::BreakAdd(at(b))]);
                }
                _ => {
                    c.breaks = vec![a];
                    cmds.extend([Cmd::BreakAdd(at(b)), Cmd::BreakRemove(at(b)), Cmd::BreakAdd(at(b)), Cmd::BreakRemove(at(a))]);
                }
            }
            cmds.extend([Cmd::BreakList, Cmd::Continue, Cmd::Registers, Cmd::Continue, Cmd::Registers, Cmd::Exit]);
            c.cmds = cmds;
            out.push((c, "straight-long"));
        }
    }
    out
}

/// A program of 0xB100 words at origin 0x1000 with a label at 0xC000: label + offset and PC + offset
/// sums that carry past 0xFFFF would, taken modulo 2^16, land inside user space again.
fn carry_sessions(tag: &'static str) -> Vec<(DbgCase, &'static str)> {
    let mut out = Vec::new();
    let mut rng = Rng::new(0xCA22);
    let mut words = vec![0u16; 0xB100];
    words[0] = 0xF025;
    for off in [0x4000i32, 0x4001, 0x5000, 0x6000, 0x7FFF, 0x3DFF, 0x3E00, 0x3FFF] {
        for variant in 0..4 {
            let p = Prog { orig: 0x1000, words: words.clone(), inp: vec![], stack: false, minimal: true, kind: "big-low-origin" };
            let mut c = decorate(&mut rng, &p, tag, vec![], 30_000);
            c.breaks.clear();
            c.labels = vec![("zq0".into(), 0xB000)];
            let mut cmds = Vec::new();
            let l = if variant < 2 {
                Loc::Label("zq0".into(), off)
            } else {
                cmds.push(Cmd::Goto(Loc::Addr(0xC000)));
                Loc::Pc(off)
            };
            cmds.push(if variant % 2 == 0 { Cmd::BreakAdd(l) } else { Cmd::MoveMem(l, 0x1234) });
            cmds.extend([Cmd::BreakList, Cmd::Registers, Cmd::Exit]);
            c.cmds = cmds;
            out.push((c, "big-low-origin"));
        }
    }
    out
}

/// The debugger paused with the PC OUTSIDE user space (below the origin, at 0, above 0xFE00, at
/// 0xFFFF), then PC-relative locations with offsets of every size: the true sum decides.
fn stray_pc_sessions(tag: &'static str) -> Vec<(DbgCase, &'static str)> {
    let mut out = Vec::new();
    let mut rng = Rng::new(0x57A7);
    for pc in [0x2FFFu16, 0x2000, 0x0000, 0x0001, 0xFE00, 0xFFFF, 0x8000] {
        for off in [-0x201i32, -0x300, -0x1000, -0x2FFF, -0x3000, -0x8000, -0x7FFF, -1, 0, 1, 0x1001, 0x3000, 0x7FFF, 0x6000] {
            for variant in 0..3 {
                // ld r0 target / jmp r0 / halt / target
                let p = Prog { orig: 0x3000, words: vec![0x2002, 0xC000, 0xF025, pc], inp: vec![], stack: false, minimal: true, kind: "stray-pc" };
                let mut c = decorate(&mut rng, &p, tag, vec![], 30_000);
                c.breaks.clear();
                c.labels.clear();
                let l = Loc::Pc(off);
                let mut cmds = vec![Cmd::StepInto(2), Cmd::Registers];
                cmds.push(match variant {
                    0 => Cmd::MoveMem(l, 0x1234),
                    1 => Cmd::BreakAdd(l),
                    _ => Cmd::Goto(l),
                });
                cmds.extend([Cmd::BreakList, Cmd::Registers, Cmd::Exit]);
                c.cmds = cmds;
                out.push((c, "stray-pc"));
            }
        }
    }
    out
}

/// Locations whose true address is negative, at origins 0 and 1, from every PC of the program.
fn below_zero_sessions(tag: &'static str) -> Vec<(DbgCase, &'static str)> {
    let mut out = Vec::new();
    let mut rng = Rng::new(0x2E80);
    for (orig, words, stack, kind) in small_programs() {
        if !kind.starts_with("origin-") {
            continue;
        }
        for k in 0..3u16 {
            for off in [-1i32, -2, -3, -32768, 0, 1] {
                for variant in 0..4 {
                    let p = Prog { orig, words: words.clone(), inp: vec![], stack, minimal: true, kind };
                    let mut c = decorate(&mut rng, &p, tag, vec![], 30_000);
                    c.breaks.clear();
                    c.labels = vec![("zq0".into(), 0), ("zq1".into(), 1)];
                    let l = if variant % 2 == 0 { Loc::Pc(off) } else { Loc::Label(if k == 0 { "zq0".into() } else { "zq1".into() }, off) };
                    let mut cmds = Vec::new();
                    if k > 0 {
                        cmds.push(Cmd::StepInto(k));
                    }
                    cmds.push(match variant {
                        0 | 1 => Cmd::MoveMem(l, 0x1234),
                        2 => Cmd::BreakAdd(l),
                        _ => Cmd::Goto(l),
                    });
                    cmds.extend([Cmd::PrintMem(Loc::Addr(0)), Cmd::BreakList, Cmd::Registers, Cmd::Exit]);
                    c.cmds = cmds;
                    out.push((c.clone(), kind));
                    // the same in the normal output mode with the source view of every statement
                    if variant == 0 && off == 0 {
                        let mut c2 = c.clone();
                        let mut cmds = vec![];
                        for a in 0..(c2.words.len() as u16 + 1) {
                            cmds.push(Cmd::Assembly(Loc::Addr(c2.orig.wrapping_add(a))));
                        }
                        cmds.extend([Cmd::Assembly(Loc::Pc(0)), Cmd::BreakAdd(Loc::Pc(1)), Cmd::BreakList, Cmd::Continue, Cmd::Assembly(Loc::Pc(0)), Cmd::Exit]);
                        c2.cmds = cmds;
                        c2.nm = true;
                        out.push((c2, kind));
                    }
                }
            }
        }
    }
    out
}

/// Sessions on the straddling programs with a `.break` on every statement (so that predefined
/// breakpoints exist at and beyond 0xFE00) probing add / remove / goto / move / list there.
fn straddle_sessions(tag: &'static str) -> Vec<(DbgCase, &'static str)> {
    let mut out = Vec::new();
    let mut rng = Rng::new(0x57AD);
    for (orig, words, stack, kind) in small_programs() {
        if !kind.starts_with("straddle") {
            continue;
        }
        let n = words.len();
        for a in 0..=(n as u16 + 1) {
            let addr = orig.wrapping_add(a);
            for variant in 0..4 {
                let p = Prog { orig, words: words.clone(), inp: vec![], stack, minimal: true, kind };
                let mut c = decorate(&mut rng, &p, tag, vec![], 30_000);
                c.breaks = (0..=n).collect();
                c.labels = vec![("zq0".into(), n - 1), ("zq1".into(), 0)];
                let l = match variant {
                    3 => Loc::Label("zq1".into(), a as i32),
                    _ => Loc::Addr(addr),
                };
                let mut cmds = vec![Cmd::BreakList];
                cmds.push(match variant {
                    0 => Cmd::BreakRemove(l),
                    1 => Cmd::BreakAdd(l),
                    2 => Cmd::Goto(l),
                    _ => Cmd::BreakRemove(l),
                });
                cmds.push(Cmd::BreakList);
                cmds.push(Cmd::Continue);
                cmds.push(Cmd::Continue);
                cmds.push(Cmd::BreakRemove(Loc::Pc(0)));
                cmds.push(Cmd::BreakList);
                cmds.push(Cmd::Registers);
                cmds.push(Cmd::Exit);
                c.cmds = cmds;
                out.push((c, kind));
            }
        }
    }
    out
}


/// Directed sessions over every small program (run first, on shard 0): the resuming commands
/// issued at each of the first few instructions, and `reset` after putting PC back by hand.
fn directed(tag: &'static str) -> Vec<(DbgCase, &'static str)> {
    let mut out = Vec::new();
    let mut rng = Rng::new(0xD1EC7ED);
    for (orig, words, stack, kind) in small_programs() {
        for k in 0..4u16 {
            for variant in 0..3 {
                let p = Prog { orig, words: words.clone(), inp: vec![], stack, minimal: true, kind };
                let mut c = decorate(&mut rng, &p, tag, vec![], 30_000);
                c.breaks.clear();
                let mut cmds = Vec::new();
                if k > 0 {
                    cmds.push(Cmd::StepInto(k));
                }
                match tag {
                    "D12" => {
                        match variant {
                            0 => cmds.push(Cmd::Goto(Loc::Addr(orig))),
                            1 => cmds.push(Cmd::Eval(match k {
                                0 => "str r7 r0 #0".into(),
                                1 => "str r7 r0 #-1".into(),
                                2 => "st r7 zq0".into(),
                                _ => "add r1 r1 #1".into(),
                            })),
                            _ => {
                                cmds.push(Cmd::StepOver);
                                cmds.push(Cmd::Goto(Loc::Addr(orig)));
                            }
                        }
                        cmds.push(Cmd::Reset);
                        cmds.push(Cmd::Exit);
                    }
                    _ => {
                        cmds.push(match variant {
                            0 => Cmd::StepOver,
                            1 => Cmd::StepOut,
                            _ => Cmd::StepInto(1),
                        });
                        cmds.push(Cmd::Registers);
                        cmds.push(Cmd::StepOver);
                        cmds.push(Cmd::Registers);
                        cmds.push(Cmd::Continue);
                        if variant == 1 {
                            cmds.push(Cmd::Exit);
                        }
                    }
                }
                c.cmds = cmds;
                c.nm = variant == 2 && k == 1;
                out.push((c, kind));
            }
        }
    }
    out
}

fn pick_program(rng: &mut Rng) -> Prog {
    if rng.chance(1, 3) {
        let sp = small_programs();
        let (orig, words, stack, kind) = sp[rng.below(sp.len() as u64) as usize].clone();
        Prog { orig, words, inp: vec![], stack: stack || rng.chance(1, 2), minimal: true, kind }
    } else {
        loop {
            let p = gen_structured(rng);
            if p.kind != "rti" {
                return p;
            }
        }
    }
}

fn in_prog_loc(rng: &mut Rng, c: &DbgCase) -> Loc {
    let n = c.words.len().max(1);
    if !c.labels.is_empty() && rng.chance(1, 4) {
        let (nme, _) = rng.pick(&c.labels).clone();
        Loc::Label(nme, rng.range(0, 2) as i32)
    } else if rng.chance(1, 5) {
        Loc::Pc(rng.range(0, 3) as i32)
    } else {
        Loc::Addr(c.orig.wrapping_add(rng.below(n as u64) as u16))
    }
}

fn gen_case(rng: &mut Rng, tag: &'static str) -> (DbgCase, &'static str) {
    let p = pick_program(rng);
    let n = p.words.len();
    let mut c = decorate(rng, &p, tag, vec![], 30_000);
    let mut cmds: Vec<Cmd> = Vec::new();
    match tag {
        "D10" => {
            for _ in 0..rng.range(1, 10) {
                cmds.push(match rng.below(9) {
                    0 | 1 => Cmd::StepOver,
                    2 | 3 => Cmd::StepInto(*rng.pick(&[0u16, 1, 2, 7, 65535, 3])),
                    4 => Cmd::StepOut,
                    5 => Cmd::Continue,
                    6 | 7 => Cmd::BreakAdd(in_prog_loc(rng, &c)),
                    _ => Cmd::BreakRemove(in_prog_loc(rng, &c)),
                });
            }
            cmds.push(Cmd::Exit);
        }
        "D11" => {
            for _ in 0..rng.range(2, 12) {
                cmds.push(match rng.below(10) {
                    0..=2 => Cmd::BreakAdd(in_prog_loc(rng, &c)),
                    3 => Cmd::BreakRemove(in_prog_loc(rng, &c)),
                    4 => Cmd::BreakList,
                    5 | 6 => Cmd::Continue,
                    7 => Cmd::StepOver,
                    8 => Cmd::StepInto(*rng.pick(&[1u16, 2, 5])),
                    _ => Cmd::StepOut,
                });
            }
            c.fuel = 4000;
            if rng.chance(1, 2) {
                cmds.push(Cmd::BreakList);
                cmds.push(Cmd::Exit);
            }
        }
        "D12" => {
            for _ in 0..rng.range(1, 10) {
                cmds.push(match rng.below(8) {
                    0 => Cmd::StepOver,
                    1 => Cmd::StepInto(*rng.pick(&[1u16, 2, 9])),
                    2 => Cmd::Continue,
                    3 => Cmd::Reset,
                    _ => rand_mutating(rng, p.orig, n, &c.labels),
                });
            }
            cmds.push(Cmd::Reset);
            cmds.push(if rng.chance(2, 3) { Cmd::Exit } else { Cmd::Quit });
        }
        "D13" => {
            for _ in 0..rng.below(3) {
                cmds.push(Cmd::StepInto(*rng.pick(&[1u16, 2, 4])));
            }
            for _ in 0..rng.range(1, 5) {
                let l = rand_loc(rng, p.orig, n, &c.labels);
                cmds.push(match rng.below(9) {
                    0 => Cmd::MoveMem(l, move_value(rng)),
                    1 => Cmd::Goto(l),
                    2 => Cmd::BreakAdd(l),
                    3 => Cmd::BreakRemove(l),
                    4 => Cmd::PrintMem(l),
                    5 => Cmd::Assembly(l),
                    6 => Cmd::MoveReg(rng.below(8) as u8, *rng.pick(&[0u16, 1, 0x7FFF, 0x8000, 0xFFFF, 0xBEEF])),
                    7 => Cmd::Registers,
                    _ => Cmd::BreakList,
                });
            }
            cmds.push(Cmd::Registers);
            cmds.push(Cmd::BreakList);
            cmds.push(Cmd::Exit);
        }
        _ => {
            // D16: resuming commands issued wherever the program ends up
            for _ in 0..rng.range(1, 12) {
                cmds.push(match rng.below(7) {
                    0 | 1 => Cmd::Continue,
                    2 => Cmd::StepOver,
                    3 => Cmd::StepOut,
                    4 => Cmd::StepInto(*rng.pick(&[1u16, 3, 65535])),
                    5 => Cmd::BreakAdd(in_prog_loc(rng, &c)),
                    _ => Cmd::Goto(in_prog_loc(rng, &c)),
                });
            }
            c.inp = vec![];
            c.fuel = 200_000;
            if rng.chance(1, 3) {
                cmds.push(Cmd::Quit);
            }
        }
    }
    // I8: program input present → the script must end the debugger session itself
    if !c.inp.is_empty() && !matches!(cmds.last(), Some(Cmd::Quit) | Some(Cmd::Exit)) {
        cmds.push(Cmd::Quit);
    }
    c.cmds = cmds;
    // one session in five runs in the normal output mode (programs without the REG trap, whose
    // table differs between the modes)
    // (and without `eval`, whose refusal messages differ between the modes)
    c.nm = !c.cmds.iter().any(|x| matches!(x, Cmd::Eval(_))) && rng.chance(1, 5);
    (c, p.kind)
}

pub fn run_prop(o: &crate::Opts, tag: &'static str) {
    let mut cap = Capture::install();
    let mut sink = crate::Sink::new(o);
    if let Some(path) = &o.replay {
        for line in std::fs::read_to_string(path).unwrap().lines() {
            if line.starts_with("T09 ") {
                match TextCase::parse(line) {
                    Some(t) => sink.put(line, &run_text(&mut cap, &t)),
                    None => sink.put(line, "bad-request"),
                }
                continue;
            }
            match DbgCase::parse(line, tag) {
                Some(c) => {
                    let obs = run_debug(&mut cap, &c);
                    let v = if obs.line == "panic" { "-".to_string() } else { verdict(&mut cap, tag, &c, &obs) };
                    sink.put(line, &format!("{} | {}", obs.line, v));
                }
                None => sink.put(line, "bad-request"),
            }
        }
        sink.finish(o, "{}");
        return;
    }
    let salt: u64 = tag.bytes().fold(0u64, |a, b| a * 131 + b as u64);
    let mut rng = Rng::new(o.seed.wrapping_mul(2654435761) ^ (o.shard as u64) << 32 ^ salt);
    let total: u64 = if o.thorough { 100_000 } else { 3_200 };
    let per = total / o.nshards as u64;
    let mut kinds: std::collections::BTreeMap<String, u64> = Default::default();
    let mut verdicts: std::collections::BTreeMap<String, u64> = Default::default();
    let mut samples = Vec::new();
    if o.shard == 0 && tag != "D13" {
        for (c, kind) in directed(tag) {
            let obs = run_debug(&mut cap, &c);
            let v = if obs.line == "panic" { "-".to_string() } else { verdict(&mut cap, tag, &c, &obs) };
            *kinds.entry(format!("directed-{}:{}", kind, obs.line.split(' ').next().unwrap_or(""))).or_default() += 1;
            *verdicts.entry(v.clone()).or_default() += 1;
            sink.put(&c.request(), &format!("{} | {}", obs.line, v));
        }
    }
    if tag == "D13" {
        for (i, (c, kind)) in carry_sessions(tag).into_iter().enumerate() {
            if i % o.nshards != o.shard {
                continue;
            }
            let obs = run_debug(&mut cap, &c);
            let v = if obs.line == "panic" { "-".to_string() } else { verdict(&mut cap, tag, &c, &obs) };
            *kinds.entry(format!("directed-{}:{}", kind, obs.line.split(' ').next().unwrap_or(""))).or_default() += 1;
            *verdicts.entry(v.clone()).or_default() += 1;
            sink.put(&c.request(), &format!("{} | {}", obs.line, v));
        }
    }
    if tag == "D13" {
        for (i, (c, kind)) in stray_pc_sessions(tag).into_iter().enumerate() {
            if i % o.nshards != o.shard {
                continue;
            }
            let obs = run_debug(&mut cap, &c);
            let v = if obs.line == "panic" { "-".to_string() } else { verdict(&mut cap, tag, &c, &obs) };
            *kinds.entry(format!("directed-{}:{}", kind, obs.line.split(' ').next().unwrap_or(""))).or_default() += 1;
            *verdicts.entry(v.clone()).or_default() += 1;
            sink.put(&c.request(), &format!("{} | {}", obs.line, v));
        }
    }
    if o.shard == 4 % o.nshards && tag == "D13" {
        for (c, kind) in below_zero_sessions(tag) {
            let obs = run_debug(&mut cap, &c);
            let v = if obs.line == "panic" { "-".to_string() } else { verdict(&mut cap, tag, &c, &obs) };
            *kinds.entry(format!("directed-{}:{}", kind, obs.line.split(' ').next().unwrap_or(""))).or_default() += 1;
            *verdicts.entry(v.clone()).or_default() += 1;
            sink.put(&c.request(), &format!("{} | {}", obs.line, v));
        }
    }
    if o.shard == 5 % o.nshards && (tag == "D12" || tag == "D09" || tag == "D10") {
        for (c, kind) in reset_at_origin_sessions(tag) {
            let obs = run_debug(&mut cap, &c);
            let v = if obs.line == "panic" { "-".to_string() } else { verdict(&mut cap, tag, &c, &obs) };
            *kinds.entry(format!("directed-{}:{}", kind, obs.line.split(' ').next().unwrap_or(""))).or_default() += 1;
            *verdicts.entry(v.clone()).or_default() += 1;
            sink.put(&c.request(), &format!("{} | {}", obs.line, v));
        }
    }
    if tag == "D12" {
        for (i, (c, kind)) in many_writes_sessions(tag).into_iter().enumerate() {
            if i % o.nshards != o.shard {
                continue;
            }
            let obs = run_debug(&mut cap, &c);
            let v = if obs.line == "panic" { "-".to_string() } else { verdict(&mut cap, tag, &c, &obs) };
            *kinds.entry(format!("directed-{}:{}", kind, obs.line.split(' ').next().unwrap_or(""))).or_default() += 1;
            *verdicts.entry(v.clone()).or_default() += 1;
            sink.put(&c.request(), &format!("{} | {}", obs.line, v));
        }
    }
    for (i, (c, kind)) in far_image_sessions(tag).into_iter().enumerate() {
        if (i + 9) % o.nshards != o.shard {
            continue;
        }
        let obs = run_debug(&mut cap, &c);
        let v = if obs.line == "panic" { "-".to_string() } else { verdict(&mut cap, tag, &c, &obs) };
        *kinds.entry(format!("directed-{}:{}", kind, obs.line.split(' ').next().unwrap_or(""))).or_default() += 1;
        *verdicts.entry(v.clone()).or_default() += 1;
        sink.put(&c.request(), &format!("{} | {}", obs.line, v));
    }
    if o.shard == 7 % o.nshards && (tag == "D10" || tag == "D11") {
        for (c, kind) in beyond_image_sessions(tag) {
            let obs = run_debug(&mut cap, &c);
            let v = if obs.line == "panic" { "-".to_string() } else { verdict(&mut cap, tag, &c, &obs) };
            *kinds.entry(format!("directed-{}:{}", kind, obs.line.split(' ').next().unwrap_or(""))).or_default() += 1;
            *verdicts.entry(v.clone()).or_default() += 1;
            sink.put(&c.request(), &format!("{} | {}", obs.line, v));
        }
    }
    if o.shard == 2 % o.nshards && (tag == "D10" || tag == "D11") {
        for (c, kind) in stride_sessions(tag) {
            let obs = run_debug(&mut cap, &c);
            let v = if obs.line == "panic" { "-".to_string() } else { verdict(&mut cap, tag, &c, &obs) };
            *kinds.entry(format!("directed-{}:{}", kind, obs.line.split(' ').next().unwrap_or(""))).or_default() += 1;
            *verdicts.entry(v.clone()).or_default() += 1;
            sink.put(&c.request(), &format!("{} | {}", obs.line, v));
        }
    }
    if o.shard == 1 % o.nshards && (tag == "D13" || tag == "D11") {
        for (c, kind) in straddle_sessions(tag) {
            let obs = run_debug(&mut cap, &c);
            let v = if obs.line == "panic" { "-".to_string() } else { verdict(&mut cap, tag, &c, &obs) };
            *kinds.entry(format!("directed-{}:{}", kind, obs.line.split(' ').next().unwrap_or(""))).or_default() += 1;
            *verdicts.entry(v.clone()).or_default() += 1;
            sink.put(&c.request(), &format!("{} | {}", obs.line, v));
        }
    }
    for k in 0..per {
        if tag == "D13" && k % 4 == 3 {
            // text-level probes: location spellings whose offset or address does not fit 16 bits
            // can only be written as text (they must be refused by the parser or the debugger)
            let t = gen_wild_text_case(&mut rng);
            let obs = run_text(&mut cap, &t);
            *kinds.entry(format!("text-probe:{}", obs.split(' ').next().unwrap_or(""))).or_default() += 1;
            sink.put(&t.request(), &obs);
            continue;
        }
        let (c, kind) = gen_case(&mut rng, tag);
        let obs = run_debug(&mut cap, &c);
        let v = if obs.line == "panic" { "-".to_string() } else { verdict(&mut cap, tag, &c, &obs) };
        *kinds.entry(format!("{}:{}", kind, obs.line.split(' ').next().unwrap_or(""))).or_default() += 1;
        *verdicts.entry(v.clone()).or_default() += 1;
        if samples.len() < 2 && rng.chance(1, 40) {
            samples.push(format!("{{\"program_kind\":\"{}\",\"words\":{},\"script\":{:?},\"executed\":{},\"commands\":{},\"iterations\":{}}}", kind, c.words.len(), c.script(), obs.executed, obs.commands, obs.iterations));
        }
        sink.put(&c.request(), &format!("{} | {}", obs.line, v));
    }
    let j = |m: &std::collections::BTreeMap<String, u64>| m.iter().map(|(k, v)| format!("\"{}\":{}", k, v)).collect::<Vec<_>>().join(",");
    let n_cases = sink.n;
    sink.finish(o, &format!("{{\"cases\":{},\"verdicts\":{{{}}},\"kind_and_outcome\":{{{}}},\"samples\":[{}]}}", n_cases, j(&verdicts), j(&kinds), samples.join(",")));
}

// ------------------------------------------------------------------ text-level sessions (T09)
//
// The script is given to the real debugger as TEXT (through `--command`, through standard input,
// or split across both; `;` or newline separated; aliases, letter case, number spellings,
// invalid lines mixed in) and the driver derives the commands from the same text with the
// command-language model (`Cmd.session`), then runs the debugger model. This ties the two
// models together end to end and checks C14's transport independence at the level of effects.

fn spell_num(rng: &mut Rng, v: u32) -> String {
    match rng.below(5) {
        0 => format!("x{:x}", v),
        1 => format!("0x{:X}", v),
        2 => format!("#{}", v),
        3 => format!("{}", v),
        _ => format!("0b{:b}", v),
    }
}

fn spell_loc(rng: &mut Rng, l: &Loc) -> String {
    match l {
        Loc::Addr(a) => spell_num(rng, *a as u32),
        Loc::Pc(o) => {
            if *o == 0 && rng.chance(1, 2) {
                "^".to_string()
            } else if *o < 0 {
                format!("^-{}", spell_num(rng, (-*o) as u32))
            } else {
                format!("^{}", spell_num(rng, *o as u32))
            }
        }
        Loc::Label(n, o) => {
            if *o == 0 {
                n.clone()
            } else if *o > 0 {
                format!("{}+{}", n, spell_num(rng, *o as u32))
            } else {
                format!("{}-{}", n, spell_num(rng, (-*o) as u32))
            }
        }
    }
}

fn recase(rng: &mut Rng, s: &str) -> String {
    match rng.below(4) {
        0 => s.to_uppercase(),
        1 => s.chars().enumerate().map(|(i, c)| if i % 2 == 0 { c.to_ascii_uppercase() } else { c }).collect(),
        _ => s.to_string(),
    }
}

/// One command as a user might type it.
pub fn spell_cmd(rng: &mut Rng, c: &Cmd) -> String {
    let pick = |rng: &mut Rng, xs: &[&str]| -> String { let i = rng.below(xs.len() as u64) as usize; recase(rng, xs[i]) };
    let sp = |rng: &mut Rng| -> String { " ".repeat(1 + rng.below(3) as usize) };
    let body = match c {
        Cmd::Help | Cmd::HelpRaw => pick(rng, &["help", "h", "man", "info"]),
        Cmd::StepOver => pick(rng, &["step", "s"]),
        Cmd::StepInto(k) => {
            let name = pick(rng, &["step into", "s i", "si", "stepinto", "step i", "s into"]);
            if *k == 1 && rng.chance(1, 2) { name } else { format!("{}{}{}", name, sp(rng), spell_num(rng, *k as u32)) }
        }
        Cmd::StepOut => pick(rng, &["step out", "s o", "so", "stepout"]),
        Cmd::Continue => pick(rng, &["continue", "c", "cont"]),
        Cmd::Registers => pick(rng, &["registers", "r", "reg"]),
        Cmd::PrintReg(r) => format!("{}{}{}{}", pick(rng, &["print", "p"]), sp(rng), if rng.chance(1, 2) { "r" } else { "R" }, r),
        Cmd::PrintMem(l) => format!("{}{}{}", pick(rng, &["print", "p"]), sp(rng), spell_loc(rng, l)),
        Cmd::MoveReg(r, v) => format!("{}{}r{}{}{}", pick(rng, &["move", "m"]), sp(rng), r, sp(rng), spell_num(rng, *v as u32)),
        Cmd::MoveMem(l, v) => format!("{}{}{}{}{}", pick(rng, &["move", "m"]), sp(rng), spell_loc(rng, l), sp(rng), spell_num(rng, *v as u32)),
        Cmd::Goto(l) => format!("{}{}{}", pick(rng, &["goto", "g"]), sp(rng), spell_loc(rng, l)),
        Cmd::Assembly(l) => {
            if *l == Loc::Pc(0) && rng.chance(1, 2) {
                pick(rng, &["assembly", "a", "asm"])
            } else {
                format!("{}{}{}", pick(rng, &["assembly", "a", "asm"]), sp(rng), spell_loc(rng, l))
            }
        }
        Cmd::Eval(s) | Cmd::EvalRaw(s) => format!("{} {}", pick(rng, &["eval", "e"]), s),
        Cmd::AsmB(l) => format!("{}{}{}", pick(rng, &["assembly", "a", "asm"]), sp(rng), spell_loc(rng, l)),
        Cmd::Echo(s) => format!("echo {}", s),
        Cmd::Reset => pick(rng, &["reset", "z"]),
        Cmd::Quit => pick(rng, &["quit", "q"]),
        Cmd::Exit => pick(rng, &["exit", "x", ":q"]),
        Cmd::BreakList | Cmd::BreakListB => pick(rng, &["break list", "b l", "bl", "breaklist", "break l"]),
        Cmd::BreakAdd(l) => format!("{}{}{}", pick(rng, &["break add", "b a", "ba", "breakadd"]), sp(rng), spell_loc(rng, l)),
        Cmd::BreakRemove(l) => format!("{}{}{}", pick(rng, &["break remove", "b r", "br", "breakremove"]), sp(rng), spell_loc(rng, l)),
    };
    let lead = " ".repeat(rng.below(3) as usize);
    let trail = " ".repeat(rng.below(3) as usize);
    format!("{}{}{}", lead, body, trail)
}

const BAD_LINES: [&str; 14] = [
    "frobnicate", "step into zz", "move r1", "print r9+", "goto", "break", "break add", "b x", "p 1 2",
    "move 70000 1", "step into 99999999999", "next", "set r0 1", "é",
];

pub struct TextCase {
    pub base: DbgCase,
    pub arg: Option<String>,
    /// everything the process finds on standard input: command text, then (after `cut` bytes)
    /// the program's input — ONE stream, shared by the command reader and GETC / IN
    pub stdin: Vec<u8>,
    /// number of leading bytes of `stdin` that are command text (the driver parses these
    /// beforehand for the pre-parsed debugger model; the on-demand model gets the whole stream)
    pub cut: usize,
}

impl TextCase {
    pub fn request(&self) -> String {
        let b = &self.base;
        let mut s = format!("T09 {} {:x} {:04x} {:x}", b.stack as u8, b.fuel, b.orig, b.words.len());
        for w in &b.words {
            s.push_str(&format!(" {:04x}", w));
        }
        let mut br = b.breaks.clone();
        br.sort();
        s.push_str(&format!(" {:x}", br.len()));
        for k in br {
            s.push_str(&format!(" {:x}", k));
        }
        s.push_str(&format!(" {:x}", b.labels.len()));
        for (n, k) in &b.labels {
            s.push_str(&format!(" {} {:x}", hex(n.as_bytes()), k));
        }
        s.push_str(&format!(
            " {} {} {:x}",
            match &self.arg { Some(a) => format!("A{}", hex(a.as_bytes())), None => "N".to_string() },
            hex(&self.stdin),
            self.cut
        ));
        s
    }
    pub fn parse(line: &str) -> Option<TextCase> {
        let f: Vec<&str> = line.split_whitespace().collect();
        let h = |i: usize| -> Option<usize> { usize::from_str_radix(f.get(i)?, 16).ok() };
        let mut i = 1;
        let stack = *f.get(i)? != "0";
        i += 1;
        let fuel = h(i)? as u64;
        i += 1;
        let orig = h(i)? as u16;
        i += 1;
        let n = h(i)?;
        i += 1;
        let mut words = Vec::new();
        for _ in 0..n {
            words.push(h(i)? as u16);
            i += 1;
        }
        let nb = h(i)?;
        i += 1;
        let mut breaks = Vec::new();
        for _ in 0..nb {
            breaks.push(h(i)?);
            i += 1;
        }
        let nl = h(i)?;
        i += 1;
        let mut labels = Vec::new();
        for _ in 0..nl {
            labels.push((String::from_utf8(unhex(f.get(i)?)?).ok()?, h(i + 1)?));
            i += 2;
        }
        let a = f.get(i)?;
        let arg = if *a == "N" { None } else { Some(String::from_utf8(unhex(&a[1..])?).ok()?) };
        let stdin = unhex(f.get(i + 1)?)?;
        let cut = match f.get(i + 2) {
            Some(c) => usize::from_str_radix(c, 16).ok()?,
            None => stdin.len(),
        };
        Some(TextCase {
            base: DbgCase { tag: "T09", stack, fuel, inp: vec![], orig, words, breaks, labels, cmds: vec![], nm: false },
            arg,
            stdin,
            cut,
        })
    }
}

/// Like `run_debug`, with the script as text; `CommandError` lines are counted, not compared
/// line by line (they are printed inside `read_from`, which the debugger model does not see).
pub fn run_text(cap: &mut Capture, t: &TextCase) -> String {
    let _watch = crate::watch::Guard::new(&t.request());
    let c = &t.base;
    set_features(c.stack);
    lace::set_minimal(true);
    lace::reset_state();
    let src: &'static str = Box::leak(c.source().into_boxed_str());
    let arg = t.arg.clone();
    let mut slot: Option<RunEnvironment> = None;
    let load = guarded(|| {
        let parser = lace::AsmParser::new(src).expect("lex");
        let mut air = parser.parse().expect("parse");
        air.backpatch().expect("backpatch");
        let opts = lace::debugger::Options { command: arg.clone() };
        slot = Some(RunEnvironment::try_from(air, Some(opts)).expect("try_from"));
    });
    if !matches!(load, Outcome::Ok) {
        return "load-failed".into();
    }
    let mut env = slot.unwrap();
    let shadow: Vec<u16> = env.verif_mem().to_vec();
    cap.set_stdin(&t.stdin);
    lace::verif::set_fuel(Some(c.fuel));
    lace::verif::set_logging(true);
    cap.begin();
    let outcome = guarded(|| env.run());
    let (out, err) = cap.end();
    let events = lace::verif::take_events();
    lace::verif::set_logging(false);
    lace::verif::set_fuel(None);
    let _ = cap.drain_stdin();
    let pcs: Vec<u16> = events.iter().filter_map(|e| if let Event::Exec(pc) = e { Some(*pc) } else { None }).collect();
    let ncmds = events.iter().filter(|e| matches!(e, Event::Cmd)).count();
    let head = match outcome {
        Outcome::Ok => "done".to_string(),
        Outcome::Exit(code) => format!("exit {}", code),
        Outcome::Fuel => "fuel".to_string(),
        Outcome::Panic(_) => return "panic".into(),
    };
    let (d, _) = mem_diff(&env.verif_mem()[..], &shadow);
    let bps = match env.verif_breakpoints() {
        Some(list) => {
            if list.is_empty() { "none".to_string() } else { list.iter().map(|(a, p)| format!("{:04x}{}", a, if *p { "p" } else { "r" })).collect::<Vec<_>>().join(",") }
        }
        None => "-".to_string(),
    };
    let all = stderr_lines(&err);
    let nerr = all.iter().filter(|l| l.as_str() == "CommandError").count();
    let lines: Vec<&String> = all.iter().filter(|l| l.as_str() != "CommandError").collect();
    let errs = if lines.is_empty() { "-".to_string() } else { lines.iter().map(|l| hex(l.as_bytes())).collect::<Vec<_>>().join(",") };
    format!(
        "{} {} |{} | {} | {} {:016x} | {} | {} | {} | errs={}",
        head, show_regs(&env), d, hex(&out), pcs.len(), fnv(&pcs), ncmds, bps, errs, nerr
    )
}

pub fn gen_text_case(rng: &mut Rng) -> TextCase {
    // a program that reads no input (standard input belongs to the command reader here)
    let p = loop {
        let p = pick_program(rng);
        if p.inp.is_empty() && !p.words.iter().any(|w| *w == 0xF020 || *w == 0xF023) {
            break p;
        }
    };
    let n = p.words.len();
    let mut base = decorate(rng, &p, "T09", vec![], 30_000);
    let mut lines: Vec<String> = Vec::new();
    for _ in 0..rng.below(12) {
        if rng.chance(1, 6) {
            lines.push((*rng.pick(&BAD_LINES)).to_string());
            continue;
        }
        if rng.chance(1, 12) {
            lines.push(" ".repeat(rng.below(3) as usize));
            continue;
        }
        let mut c = if rng.chance(1, 4) { rand_mutating(rng, p.orig, n, &base.labels) } else { rand_nonmutating(rng, p.orig, n, &base.labels) };
        if matches!(c, Cmd::Eval(_)) {
            // what `eval` prints is only comparable between its echo markers (structured sessions)
            c = Cmd::Reset;
        }
        lines.push(spell_cmd(rng, &c));
    }
    if rng.chance(1, 2) {
        let q = if rng.chance(3, 4) { Cmd::Quit } else { Cmd::Exit };
        lines.push(spell_cmd(rng, &q));
    }
    base.inp = vec![];
    // split the script between --command and standard input; `;` or newline between commands
    let cut = rng.below(lines.len() as u64 + 1) as usize;
    let join = |rng: &mut Rng, ls: &[String]| -> String {
        let mut s = String::new();
        for (i, l) in ls.iter().enumerate() {
            if i > 0 {
                s.push(if rng.chance(1, 2) { ';' } else { '\n' });
            }
            s.push_str(l);
        }
        if !ls.is_empty() && rng.chance(1, 3) {
            s.push(if rng.chance(1, 2) { ';' } else { '\n' });
        }
        s
    };
    let (arg, stdin) = match rng.below(4) {
        0 => (None, join(rng, &lines)),
        1 => (Some(join(rng, &lines)), String::new()),
        _ => (Some(join(rng, &lines[..cut])), join(rng, &lines[cut..])),
    };
    let stdin = stdin.into_bytes();
    let cut = stdin.len();
    TextCase { base, arg, stdin, cut }
}

/// Minimal witnesses for the hand-over of standard input: GETC, OUT, IN, HALT at x3000 with the
/// program's input `AB` right behind `quit` and its one delimiter.
pub fn directed_input_text_cases() -> Vec<TextCase> {
    let words = vec![0xF020u16, 0xF021, 0xF023, 0xF025];
    let mk = |arg: Option<&str>, script: &str, input: &[u8]| -> TextCase {
        let mut stdin = script.as_bytes().to_vec();
        let cut = stdin.len();
        stdin.extend_from_slice(input);
        TextCase {
            base: DbgCase { tag: "T09", stack: false, fuel: 30_000, inp: vec![], orig: 0x3000, words: words.clone(), breaks: vec![], labels: vec![], cmds: vec![], nm: false },
            arg: arg.map(|a| a.to_string()),
            stdin,
            cut,
        }
    };
    vec![
        mk(None, "quit;", b"AB"),
        mk(None, "quit\n", b"AB"),
        mk(None, "registers;q;", b"AB\n"),
        mk(None, "registers\nbogus\n\nprint r0;quit;", b";B"),
        mk(None, "break add x3002;break list\n quit \n", b"\nB"),
        mk(None, "q;", b"quit\nAB"),
        mk(None, "q\n", b"\xc3\xa9"),
        mk(None, "q;", b"A"),
        mk(Some("registers"), "quit;", b"AB"),
        mk(Some("registers;"), "print r0\nquit\n", b"AB"),
        mk(Some("registers;quit"), "", b"AB"),
        mk(Some("quit\n"), "", b"AB"),
    ]
}

/// An inspection / breakpoint command: reads or lists, never resumes, never touches the machine.
pub fn rand_inspect(rng: &mut Rng, orig: u16, n: usize, labels: &[(String, usize)]) -> Cmd {
    match rng.below(9) {
        0 => Cmd::BreakAdd(rand_loc(rng, orig, n, labels)),
        1 => Cmd::BreakRemove(rand_loc(rng, orig, n, labels)),
        2 => Cmd::BreakList,
        3 => Cmd::PrintReg(rng.below(8) as u8),
        4 => Cmd::PrintMem(rand_loc(rng, orig, n, labels)),
        5 => Cmd::Registers,
        6 => Cmd::Assembly(rand_loc(rng, orig, n, labels)),
        7 => Cmd::Help,
        _ => Cmd::Echo(format!("m{}", rng.below(100))),
    }
}

/// Text-level session with a program that READS INPUT (GETC / IN): standard input is one byte
/// stream shared by the debugger's command reader and the program.  The script (inspection and
/// breakpoint commands, rejected lines, blank lines — an instruction executed before `quit`
/// would read the script text, DESIGN §13) ends in `quit` and ONE delimiter (`;` or newline),
/// and the very next byte is the program's input.  `Lace.C09IO.quit_hands_over_stdin`.
pub fn gen_input_text_case(rng: &mut Rng) -> TextCase {
    let p = loop {
        let p = pick_program(rng);
        if p.words.iter().any(|w| *w == 0xF020 || *w == 0xF023) {
            break p;
        }
    };
    let n = p.words.len();
    let mut base = decorate(rng, &p, "T09", vec![], 30_000);
    let mut lines: Vec<String> = Vec::new();
    for _ in 0..rng.below(8) {
        if rng.chance(1, 6) {
            lines.push((*rng.pick(&BAD_LINES)).to_string());
        } else if rng.chance(1, 12) {
            lines.push(" ".repeat(rng.below(3) as usize));
        } else {
            let c = rand_inspect(rng, p.orig, n, &base.labels);
            if matches!(c, Cmd::Help) {
                // the help text is free text: bracketed by echo markers, collapsed by `stderr_lines`
                lines.push("echo @h".to_string());
                lines.push(spell_cmd(rng, &c));
                lines.push("echo @/h".to_string());
            } else {
                lines.push(spell_cmd(rng, &c));
            }
        }
    }
    let quit = spell_cmd(rng, &Cmd::Quit);
    // the program's input: what the generator made for this program, sometimes starting with
    // bytes that a greedy reader would swallow (more "commands", delimiters)
    let mut input: Vec<u8> = Vec::new();
    if rng.chance(1, 4) {
        input.extend_from_slice(*rng.pick(&[&b"\n"[..], &b";"[..], &b"registers\n"[..], &b"quit;"[..], &b" "[..]]));
    }
    input.extend_from_slice(&p.inp);
    base.inp = vec![];
    let sep = |rng: &mut Rng| if rng.chance(1, 2) { ';' } else { '\n' };
    // every line followed by one separator
    let terminated = |rng: &mut Rng, ls: &[String]| -> String {
        let mut s = String::new();
        for l in ls {
            s.push_str(l);
            s.push(sep(rng));
        }
        s
    };
    let k = rng.below(lines.len() as u64 + 1) as usize;
    match rng.below(4) {
        // the whole script on standard input, in front of the program's input
        0 | 1 => {
            let mut s = terminated(rng, &lines);
            s.push_str(&quit);
            s.push(sep(rng));
            let mut stdin = s.into_bytes();
            let cut = stdin.len();
            stdin.extend_from_slice(&input);
            TextCase { base, arg: None, stdin, cut }
        }
        // split: the first lines through --command, the rest and `quit` on standard input
        2 => {
            let mut a = terminated(rng, &lines[..k]);
            if !a.is_empty() && rng.chance(1, 2) {
                a.pop(); // the argument need not end with a separator
            }
            let mut s = terminated(rng, &lines[k..]);
            s.push_str(&quit);
            s.push(sep(rng));
            let mut stdin = s.into_bytes();
            let cut = stdin.len();
            stdin.extend_from_slice(&input);
            TextCase { base, arg: Some(a), stdin, cut }
        }
        // everything, `quit` included, through --command: standard input is the program's alone
        _ => {
            let mut a = terminated(rng, &lines);
            a.push_str(&quit);
            if rng.chance(1, 2) {
                a.push(sep(rng));
            }
            TextCase { base, arg: Some(a), stdin: input, cut: 0 }
        }
    }
}

/// Probe sessions written as text, with location spellings beyond 16 bits.
pub fn gen_wild_text_case(rng: &mut Rng) -> TextCase {
    let p = loop {
        let p = pick_program(rng);
        if p.inp.is_empty() && !p.words.iter().any(|w| *w == 0xF020 || *w == 0xF023) {
            break p;
        }
    };
    let base = decorate(rng, &p, "T09", vec![], 30_000);
    let label = base.labels.first().map(|l| l.0.clone()).unwrap_or_else(|| "nolabel".to_string());
    let wild_off = ["65534", "65536", "0x10000", "#99999", "32769", "x8001", "32768", "0xFFFF", "2147483647", "2147483648", "65535"];
    let mut lines: Vec<String> = Vec::new();
    for _ in 0..rng.below(3) {
        lines.push(format!("step into {}", rng.range(1, 4)));
    }
    for _ in 0..rng.range(1, 5) {
        let off = *rng.pick(&wild_off);
        let sign = if rng.chance(1, 2) { "-" } else { "+" };
        let loc = match rng.below(4) {
            0 => format!("^{}{}", if sign == "-" { "-" } else { "" }, off),
            1 => format!("{}{}{}", label, sign, off),
            2 => (*rng.pick(&["x10000", "70000", "0x1FFFF", "#65536", "-1", "x-1"])).to_string(),
            _ => format!("^{}{}", sign, off),
        };
        let verb = *rng.pick(&["goto", "move", "break add", "break remove", "print", "assembly"]);
        if verb == "move" {
            lines.push(format!("move {} x{:x}", loc, rng.u16()));
        } else {
            lines.push(format!("{} {}", verb, loc));
        }
    }
    lines.push("registers".into());
    lines.push("break list".into());
    lines.push("exit".into());
    let script = lines.join(if rng.chance(1, 2) { "\n" } else { ";" });
    let (arg, stdin) = if rng.chance(1, 2) { (Some(script), String::new()) } else { (None, script) };
    let stdin = stdin.into_bytes();
    let cut = stdin.len();
    TextCase { base, arg, stdin, cut }
}
